package gen

import (
	"verifharness/fw"
	"verifharness/ref"
)

// Layout draws the sender freedoms RFC 3550/8285 allow for packet p.
// canonicalBias: probability (in %) of the canonical layout.
func Layout(r *fw.Rand, p *ref.Packet, canonicalBias int) *ref.Layout {
	if r.Intn(100) < canonicalBias {
		return nil
	}
	l := &ref.Layout{}
	if p.ExtKind == ref.ExtOneByte || p.ExtKind == ref.ExtTwoByte {
		l.PadBefore = make([]int, len(p.Elems))
		for i := range l.PadBefore {
			if r.Chance(1, 3) {
				l.PadBefore[i] = r.Range(1, 3)
				if r.Chance(1, 5) {
					// senders reserve room for elements they fill in later: whole words of padding between elements
					l.PadBefore[i] = r.Pick(4, 5, 7, 8, 9, 12, 16, 40, 255, 256, 257, 300, 1000)
				}
			}
		}
		if r.Chance(1, 3) {
			l.PadAfter = r.Range(1, 5)
			if r.Chance(1, 5) {
				l.PadAfter = r.Pick(7, 8, 9, 12, 40, 256, 300)
			}
		}
		if p.ExtKind == ref.ExtOneByte && r.Chance(1, 4) {
			l.Terminator = true
			l.TermNibble = uint8(r.Intn(16))
			l.TermJunk = r.Bytes(r.Pick(0, 0, 1, 2, 3, 5, 8))
		}
		if r.Chance(1, 5) {
			l.ExtraWords = r.Range(1, 2)
		}
	}
	if p.PadSize > 1 && r.Bool() {
		l.PadFill = r.Bytes(int(p.PadSize) - 1)
	}
	return l
}

// BoundaryBytes is the structured alphabet used by mutators and walks.
var BoundaryBytes = []byte{0x00, 0x01, 0x0F, 0x10, 0x7F, 0x80, 0xBE, 0xDE, 0xF0, 0xFF}

// Mutate applies one random structural mutation to a wire image.
func Mutate(r *fw.Rand, in []byte) []byte {
	b := append([]byte{}, in...)
	if len(b) == 0 {
		return []byte{byte(r.U64())}
	}
	pos := func() int {
		// bias towards the header region
		if r.Chance(3, 4) {
			n := len(b)
			if n > 40 {
				n = 40
			}
			return r.Intn(n)
		}
		return r.Intn(len(b))
	}
	switch r.Intn(12) {
	case 0: // bit flip
		b[pos()] ^= 1 << uint(r.Intn(8))
	case 1: // boundary byte
		b[pos()] = BoundaryBytes[r.Intn(len(BoundaryBytes))]
	case 2: // CC +-1
		cc := int(b[0]&0x0F) + r.Pick(-1, 1)
		b[0] = b[0]&0xF0 | byte(cc)&0x0F
	case 3: // toggle X or P
		b[0] ^= byte(r.Pick(0x10, 0x20))
	case 4: // extension length field +-1 (if an extension header is in range)
		off := 12 + 4*int(b[0]&0x0F) + 3
		if off < len(b) {
			if r.Chance(1, 4) {
				b[off-1] ^= byte(r.Pick(0x40, 0x80, 0xC0, 0x01)) // high byte: lengths beyond 16 bits of bytes
			} else {
				b[off] += byte(r.Pick(1, 255, 2, 254))
			}
		}
	case 5: // padding count
		b[len(b)-1] = byte(r.Pick(0, 1, len(b)-12, len(b)-11, len(b)-13, len(b), 255, int(b[len(b)-1])+1, int(b[len(b)-1])-1))
	case 6: // element length nibble / length byte near start of extension data
		off := 12 + 4*int(b[0]&0x0F) + 4 + r.Intn(3)
		if off < len(b) {
			b[off] += byte(r.Pick(1, 255, 16, 240))
		}
	case 7: // insert a byte
		p := r.Intn(len(b) + 1)
		b = append(b[:p], append([]byte{BoundaryBytes[r.Intn(len(BoundaryBytes))]}, b[p:]...)...)
	case 8: // delete a byte
		p := pos()
		b = append(b[:p], b[p+1:]...)
	case 9: // truncate
		b = b[:r.Intn(len(b))]
	case 10: // truncate near structural boundaries
		off := 12 + 4*int(b[0]&0x0F) + r.Range(-1, 9)
		if off >= 0 && off < len(b) {
			b = b[:off]
		}
	default: // two mutations
		return Mutate(r, Mutate(r, b))
	}
	return b
}

// RandomWire returns an arbitrary byte string with a structurally interesting
// first byte.
func RandomWire(r *fw.Rand) []byte {
	n := r.Pick(0, 1, 3, 4, 11, 12, 13, 15, 16, 17, 20, r.Range(0, 80), r.Range(0, 80), r.Range(12, 40))
	b := r.Bytes(n)
	if n > 0 {
		switch r.Intn(4) {
		case 0:
			b[0] = 0x90 | byte(r.Intn(3)) // V=2, X=1, small CC
		case 1:
			b[0] = 0xB0 // V=2, P=1, X=1
		case 2:
			b[0] = 0x80 | byte(r.Intn(16))
		}
	}
	if n >= 16 && r.Bool() {
		off := 12 + 4*int(b[0]&0x0F)
		if off+4 <= n {
			switch r.Intn(3) {
			case 0:
				b[off], b[off+1] = 0xBE, 0xDE
			case 1:
				b[off], b[off+1] = 0x10, 0x00
			}
			b[off+2] = 0
			b[off+3] = byte(r.Intn(4))
		}
	}
	return b
}

// ValidWire returns a well-formed wire image (random layout) and its description.
func ValidWire(r *fw.Rand) ([]byte, *ref.Packet, *ref.Layout) {
	p := Packet(r, ClassesOf(r, NClassProduct))
	// keep the images small so that mutations hit structure
	if len(p.Payload) > 48 && r.Chance(3, 4) {
		p.Payload = p.Payload[:r.Range(0, 48)]
	}
	l := Layout(r, p, 40)
	return ref.Encode(p, l), p, l
}
