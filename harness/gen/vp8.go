package gen

import "verifharness/fw"

// VP8Frame returns n bytes shaped like a real VP8 frame (RFC 6386 section 9.1): a 3-byte frame tag
// (key-frame bit, version, show_frame, 19-bit first_part_size) and, for key frames, the start code 9d 01 2a and
// 14-bit dimensions; the rest is arbitrary. boundary (>= 0) asks for a first partition that ends exactly boundary
// bytes into the frame, when that fits; -1 chooses freely (consistent sizes, zero, sizes beyond the frame).
// Frames shorter than the headers are cut, which real streams never are; payloaders must cope anyway.
func VP8Frame(r *fw.Rand, n int, key bool, boundary int) []byte {
	b := r.Bytes(n)
	hdr := 3
	if key {
		hdr = 10
	}
	first := 0
	switch {
	case boundary >= hdr && boundary < n:
		first = boundary - hdr
	case n > hdr+1:
		switch r.Intn(6) {
		case 0:
			first = 0
		case 1:
			first = n - hdr // the first partition is all there is
		case 2:
			first = n // inconsistent: beyond the frame
		default:
			first = r.Range(1, n-hdr-1)
		}
	}
	if first >= 1<<19 {
		first = 1<<19 - 1
	}
	tag := uint32(first)<<5 | uint32(r.Intn(2))<<4 | uint32(r.Intn(4))<<1
	if !key {
		tag |= 1
	}
	head := []byte{byte(tag), byte(tag >> 8), byte(tag >> 16), 0x9d, 0x01, 0x2a, byte(r.Intn(256)), byte(r.Intn(64) | r.Intn(4)<<6), byte(r.Intn(256)), byte(r.Intn(64) | r.Intn(4)<<6)}
	copy(b, head[:hdr])
	return b
}
