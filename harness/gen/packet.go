// Package gen holds the seeded workload generators and the bridges between
// library values and the library-independent descriptions in package ref.
package gen

import (
	"fmt"

	"github.com/pion/rtp"

	"verifharness/fw"
	"verifharness/ref"
)

func pickU32(r *fw.Rand) uint32 {
	switch r.Intn(4) {
	case 0:
		return 0
	case 1:
		return 0xFFFFFFFF
	default:
		return uint32(r.U64())
	}
}

// PacketClasses are the class indices used for the deterministic cross product.
type PacketClasses struct {
	CSRC, Ext, Payload, Pad int
}

// Cross-product sizes.
const (
	NCSRCClasses    = 4
	NExtClasses     = 10
	NPayloadClasses = 6
	NPadClasses     = 8
)

// NClassProduct is the size of the class cross product.
const NClassProduct = NCSRCClasses * NExtClasses * NPayloadClasses * NPadClasses

// ClassesOf maps an index to a class tuple (i < NClassProduct: deterministic
// cross product; beyond: random classes).
func ClassesOf(r *fw.Rand, i int) PacketClasses {
	if i < NClassProduct {
		c := PacketClasses{}
		c.CSRC = i % NCSRCClasses
		i /= NCSRCClasses
		c.Ext = i % NExtClasses
		i /= NExtClasses
		c.Payload = i % NPayloadClasses
		i /= NPayloadClasses
		c.Pad = i % NPadClasses
		return c
	}
	return PacketClasses{r.Intn(NCSRCClasses), r.Intn(NExtClasses), r.Intn(NPayloadClasses), r.Intn(NPadClasses)}
}

func oneByteLen(r *fw.Rand) int {
	return []int{1, 1, 2, 3, 4, 15, 16, 16, r.Range(1, 16), r.Range(1, 16)}[r.Intn(10)]
}

func twoByteLen(r *fw.Rand) int {
	return []int{0, 0, 1, 2, 3, 4, 16, 17, 254, 255, r.Range(0, 255), r.Range(0, 40), r.Range(0, 40)}[r.Intn(13)]
}

// distinctIDs picks n distinct ids in [lo,hi].
func distinctIDs(r *fw.Rand, n, lo, hi int) []uint8 {
	span := hi - lo + 1
	if n > span {
		n = span
	}
	used := map[int]bool{}
	out := make([]uint8, 0, n)
	for len(out) < n {
		var id int
		switch r.Intn(6) {
		case 0:
			id = lo
		case 1:
			id = hi
		default:
			id = r.Range(lo, hi)
		}
		if used[id] {
			continue
		}
		used[id] = true
		out = append(out, uint8(id))
	}
	return out
}

// Packet generates a well-formed packet of the C01 domain for the classes.
func Packet(r *fw.Rand, c PacketClasses) *ref.Packet {
	p := &ref.Packet{}
	p.Version = uint8([]int{2, 2, 2, 0, 1, 3}[r.Intn(6)])
	p.Marker = r.Bool()
	p.PT = uint8([]int{0, 127, r.Intn(128), r.Intn(128)}[r.Intn(4)])
	p.Seq = uint16([]int{0, 65535, r.Intn(65536)}[r.Intn(3)])
	p.TS = pickU32(r)
	p.SSRC = pickU32(r)
	var nc int
	switch c.CSRC {
	case 0:
		nc = 0
	case 1:
		nc = 1
	case 2:
		nc = 15
	default:
		nc = r.Range(0, 15)
	}
	for i := 0; i < nc; i++ {
		p.CSRC = append(p.CSRC, pickU32(r))
	}
	switch c.Ext {
	case 0:
		p.ExtKind = ref.ExtNone
	case 1: // one-byte, no element
		p.ExtKind = ref.ExtOneByte
	case 2, 3, 4: // one-byte
		p.ExtKind = ref.ExtOneByte
		n := []int{1, r.Range(2, 4), r.Range(1, 14)}[c.Ext-2]
		for _, id := range distinctIDs(r, n, 1, 14) {
			p.Elems = append(p.Elems, ref.Elem{ID: id, Val: Value(r, oneByteLen(r))})
		}
	case 5: // two-byte, no element
		p.ExtKind = ref.ExtTwoByte
	case 6, 7: // two-byte
		p.ExtKind = ref.ExtTwoByte
		n := []int{1, r.Range(2, 6)}[c.Ext-6]
		if c.Ext == 7 && r.Chance(1, 6) {
			n = r.Range(7, 16) // many elements
			if r.Chance(1, 6) {
				n = r.Pick(17, 31, 32, 33, 64, 65, 100, 128, 200, 255) // very many: any fixed-size table inside overflows
			}
		}
		for _, id := range distinctIDs(r, n, 1, 255) {
			p.Elems = append(p.Elems, ref.Elem{ID: id, Val: Value(r, twoByteLen(r))})
		}
		if c.Ext == 7 && r.Chance(1, 1500) {
			// the largest two-byte block there is: (nearly) every id with a (nearly) 255-byte value - 255 * 257 = 65535 octets,
			// a length word of 16384
			p.Elems = nil
			for _, id := range distinctIDs(r, 255, 1, 255) {
				p.Elems = append(p.Elems, ref.Elem{ID: id, Val: r.Bytes(255)})
			}
			for deficit := r.Pick(0, 0, 1, 2, 3, 4, 5, 300); deficit > 0; deficit-- {
				k := r.Intn(len(p.Elems))
				if n := len(p.Elems[k].Val); n > 0 {
					p.Elems[k].Val = p.Elems[k].Val[:n-1]
				}
			}
		}
	case 8, 9: // legacy
		p.ExtKind = ref.ExtLegacy
		for {
			p.Profile = uint16([]int{0, 1, 0xBEDD, 0xBEDF, 0x0FFF, 0x1001, 0xFFFF, r.Intn(65536)}[r.Intn(8)])
			if p.Profile != 0xBEDE && p.Profile != 0x1000 {
				break
			}
		}
		words := 0
		if c.Ext == 9 {
			words = r.Range(1, 8)
			if r.Chance(1, 400) { // rare: blocks whose byte length needs more than 16 bits
				words = r.Pick(16383, 16384, 16385, 32768, 49153, 65535)
			}
		} else if r.Bool() {
			words = 1
		}
		p.Elems = []ref.Elem{{ID: 0, Val: Value(r, 4*words)}}
	}
	var pl int
	switch c.Payload {
	case 0:
		pl = 0
	case 1:
		pl = 1
	case 2:
		pl = r.Range(2, 4)
	case 3:
		pl = r.Range(5, 64)
	case 4:
		pl = r.Range(65, 1500)
	default:
		pl = r.Range(0, 200)
	}
	if c.Payload >= 4 && r.Chance(1, 300) {
		pl = r.Pick(65523, 65535, 65536, 65537, 70000) // datagrams beyond 64 KiB (jumbograms, or after reassembly by a lower layer)
	}
	p.Payload = Value(r, pl)
	switch c.Pad {
	case 0, 1:
		p.PadSize = 0
	case 2:
		p.PadSize = 1
	case 3:
		p.PadSize = uint8(r.Range(2, 4))
	case 4:
		p.PadSize = 254
	case 5:
		p.PadSize = 255
	default:
		p.PadSize = uint8(r.Range(1, 255))
	}
	if r.Chance(1, 4) {
		coincide(r, p)
	}
	return p
}

// Value returns n content bytes: mostly random, sometimes made of the octets that mean something to the framing around it
// (00 = extension padding, trailing 00, leading 00, FF, a one-byte element header): content is opaque and must survive as it is.
func Value(r *fw.Rand, n int) []byte {
	b := r.Bytes(n)
	if n == 0 {
		return b
	}
	switch r.Intn(12) {
	case 0:
		for i := range b {
			b[i] = 0
		}
	case 1:
		b[n-1] = 0
		if n > 1 && r.Bool() {
			b[n-2] = 0
		}
	case 2:
		b[0] = 0
	case 3:
		for i := range b {
			b[i] = 0xFF
		}
	case 4:
		b[n-1] = byte(r.Pick(0xF0, 0xFF, 0x10, 0x01, n-1, n))
	case 5:
		WithMagic(r, b)
	case 6:
		// one value throughout: digital silence and idle patterns (A-law D5, mu-law FF / 7F, 55, 2A ...) are ordinary content
		v := byte(r.Pick(0xD5, 0xD5, 0x55, 0x7F, 0x80, 0x2A, 0xAA, 0x01, r.Intn(256)))
		for i := range b {
			b[i] = v
		}
	}
	return b
}

// coincide makes header field values coincide with quantities of the packet itself (total size, size in words minus one as
// RTCP counts it, header size, payload length) and makes the second octet look like an RTCP packet type (RFC 5761: 192-223):
// the fields are opaque numbers, so no relation between them and the sizes may matter to the codec.
func coincide(r *fw.Rand, p *ref.Packet) {
	total := len(ref.Encode(p, nil))
	hdr := total - len(p.Payload) - int(p.PadSize)
	cand := []int{total, total - 1, total + 1, total / 4, total/4 - 1, total/4 + 1, hdr, hdr / 4, hdr/4 - 1, len(p.Payload), len(p.Payload) / 4, int(p.PadSize), total - 12}
	pick := func() int { return cand[r.Intn(len(cand))] }
	p.Seq = uint16(pick())
	if r.Bool() {
		p.TS = uint32(pick())
	}
	if r.Bool() {
		p.SSRC = uint32(pick())
	}
	if len(p.CSRC) > 0 && r.Bool() {
		p.CSRC[r.Intn(len(p.CSRC))] = uint32(pick())
	}
	if r.Chance(2, 3) {
		p.Marker = true
		p.PT = uint8(r.Pick(64, 72, 73, 74, 75, 76, 77, 78, 79, 80, 95, r.Range(64, 95))) // second octet 192..223
	}
	if r.Chance(1, 3) {
		p.Version = 2
	}
}

func lenClass(n int) string {
	switch {
	case n == 0:
		return "0"
	case n == 1:
		return "1"
	case n <= 4:
		return "2-4"
	case n <= 16:
		return "5-16"
	case n <= 64:
		return "17-64"
	case n <= 255:
		return "65-255"
	default:
		return ">255"
	}
}

// ShapeKey is the canonical shape of a packet description.
func ShapeKey(p *ref.Packet) string {
	maxv, minv, sum := 0, 1<<30, 0
	for _, e := range p.Elems {
		if len(e.Val) > maxv {
			maxv = len(e.Val)
		}
		if len(e.Val) < minv {
			minv = len(e.Val)
		}
		sum += len(e.Val)
	}
	if len(p.Elems) == 0 {
		minv = 0
	}
	align := 0
	if p.ExtKind == ref.ExtOneByte {
		align = (sum + len(p.Elems)) % 4
	} else if p.ExtKind == ref.ExtTwoByte {
		align = (sum + 2*len(p.Elems)) % 4
	}
	return fmt.Sprintf("v%d cc%d k%d n%d min%s max%s al%d pl%s pad%s", p.Version, len(p.CSRC), p.ExtKind, len(p.Elems), lenClass(minv), lenClass(maxv), align,
		lenClass(len(p.Payload)), lenClass(int(p.PadSize)))
}

// Nontrivial: a packet with at least one variable-length part.
func Nontrivial(p *ref.Packet) bool {
	return len(p.CSRC) > 0 || p.ExtKind != ref.ExtNone || p.PadSize > 0 || len(p.Payload) > 0
}

// ToLib builds the library value through the public API: the profile is
// preset and every element goes through SetExtension. err != nil means the
// library refused a value of the stated domain.
func ToLib(p *ref.Packet) (*rtp.Packet, error) {
	pk := &rtp.Packet{}
	if err := FillHeader(&pk.Header, p); err != nil {
		return nil, err
	}
	pk.Payload = append([]byte{}, p.Payload...)
	if p.Payload == nil {
		pk.Payload = nil
	}
	pk.PaddingSize = p.PadSize
	return pk, nil
}

// FillHeader builds the header part.
func FillHeader(h *rtp.Header, p *ref.Packet) error {
	h.Version = p.Version
	h.Padding = p.PadSize > 0
	h.Marker = p.Marker
	h.PayloadType = p.PT
	h.SequenceNumber = p.Seq
	h.Timestamp = p.TS
	h.SSRC = p.SSRC
	if p.CSRC != nil {
		h.CSRC = append([]uint32{}, p.CSRC...)
	}
	if p.ExtKind != ref.ExtNone {
		h.Extension = true
		h.ExtensionProfile = p.ProfileOf()
		for _, e := range p.Elems {
			if err := h.SetExtension(e.ID, append([]byte{}, e.Val...)); err != nil {
				return fmt.Errorf("SetExtension(%d, %d bytes) on profile %#x: %w", e.ID, len(e.Val), h.ExtensionProfile, err)
			}
		}
	}
	return nil
}

// FromLibHeader reads a library header back into a description through the
// public accessors only.
func FromLibHeader(h *rtp.Header) *ref.Packet {
	p := &ref.Packet{}
	p.Version = h.Version
	p.Marker = h.Marker
	p.PT = h.PayloadType
	p.Seq = h.SequenceNumber
	p.TS = h.Timestamp
	p.SSRC = h.SSRC
	p.CSRC = append([]uint32(nil), h.CSRC...)
	if h.Extension {
		switch h.ExtensionProfile {
		case 0xBEDE:
			p.ExtKind = ref.ExtOneByte
		case 0x1000:
			p.ExtKind = ref.ExtTwoByte
		default:
			p.ExtKind = ref.ExtLegacy
			p.Profile = h.ExtensionProfile
		}
		seen := map[uint8]bool{}
		for _, id := range h.GetExtensionIDs() {
			var v []byte
			if !seen[id] {
				v = h.GetExtension(id)
			} else {
				v = []byte("<duplicate id: value not addressable>")
			}
			seen[id] = true
			p.Elems = append(p.Elems, ref.Elem{ID: id, Val: v})
		}
	}
	return p
}

// FromLib reads a library packet back.
func FromLib(pk *rtp.Packet) *ref.Packet {
	p := FromLibHeader(&pk.Header)
	p.Payload = pk.Payload
	p.PadSize = pk.PaddingSize
	// The P bit and the padding size are separate fields in the library; a
	// mismatch is reported by the monitors that care (PadFlag).
	return p
}

// Describe renders a description for samples and witnesses.
func Describe(p *ref.Packet) map[string]any {
	elems := []string{}
	for _, e := range p.Elems {
		elems = append(elems, fmt.Sprintf("%d:%s", e.ID, fw.Trunc(fw.Hex(e.Val), 80)))
	}
	return map[string]any{
		"version": p.Version, "marker": p.Marker, "pt": p.PT, "seq": p.Seq, "ts": p.TS, "ssrc": p.SSRC, "csrc": p.CSRC,
		"ext_kind": []string{"none", "one-byte", "two-byte", "legacy"}[p.ExtKind], "profile": fmt.Sprintf("%#04x", p.ProfileOf()), "elems": elems,
		"payload_len": len(p.Payload), "payload": fw.Trunc(fw.Hex(p.Payload), 64), "pad_size": p.PadSize,
	}
}

// Magics are byte strings that start well-known containers, codecs' side formats and neighbouring protocols. Payload bytes are
// opaque to RTP packetization: nothing may depend on them looking like something else.
var Magics = [][]byte{
	[]byte("OpusHead"), []byte("OpusTags"), []byte("OggS"), []byte("RIFF"), []byte("WAVEfmt "), []byte("fLaC"), []byte("ID3"), []byte("DKIF"), []byte(".snd"),
	{0x1A, 0x45, 0xDF, 0xA3}, {0x21, 0x12, 0xA4, 0x42}, {0x16, 0xFE, 0xFD}, {0x16, 0x03, 0x01}, {0x00, 0x00, 0x00, 0x01}, {0x00, 0x00, 0x01}, {0xFF, 0xF1}, {0xFF, 0xFB},
	{0x80, 0xC8}, {0x81, 0xC9}, {0x9d, 0x01, 0x2a}, {0x49, 0x83, 0x42}, []byte("ftyp"), []byte("moof"), []byte("mdat"), {0x47, 0x40, 0x00}, {0xFC}, {0xF8, 0xFF, 0xFE},
}

// WithMagic overwrites the start of b (or a position inside it) with one of the magic strings.
func WithMagic(r *fw.Rand, b []byte) []byte {
	m := Magics[r.Intn(len(Magics))]
	pos := 0
	if len(b) > len(m)+4 && r.Chance(1, 4) {
		pos = r.Pick(1, 3, 4, r.Intn(len(b)-len(m)))
	}
	copy(b[pos:], m)
	return b
}

// OpusPacket returns n bytes shaped like an Opus packet (RFC 6716 section 3): a TOC byte and, by its code, one frame, two equal
// frames, two frames with a length, or code 3 with a frame-count byte (VBR flag, padding flag), padding length octets, frame data
// and padding. To an RTP payloader all of it is opaque audio.
func OpusPacket(r *fw.Rand, n int) []byte {
	b := r.Bytes(n)
	if n == 0 {
		return b
	}
	code := r.Intn(4)
	b[0] = byte(r.Intn(32))<<3 | byte(r.Intn(2))<<2 | byte(code)
	if code != 3 || n < 4 {
		return b
	}
	m := r.Range(1, 4)
	pad := r.Pick(0, 1, 2, 5, 20, n/4)
	if pad > 254 {
		pad = 254
	}
	if pad+3 >= n {
		pad = 0
	}
	b[1] = byte(m)
	if r.Bool() {
		b[1] |= 0x80 // VBR
	}
	if pad > 0 {
		b[1] |= 0x40
		b[2] = byte(pad) // one length octet (< 255)
		fill := byte(0)
		if r.Chance(1, 4) {
			fill = byte(r.Intn(256))
		}
		for i := n - pad; i < n; i++ {
			b[i] = fill
		}
		if b[1]&0x80 == 0 {
			// CBR: make the frame bytes divisible by the frame count
			frames := n - 3 - pad
			if frames > m && frames%m != 0 && pad+frames%m < 255 && n-pad-frames%m > 3 {
				extra := frames % m
				b[2] = byte(pad + extra)
				for i := n - pad - extra; i < n-pad; i++ {
					b[i] = fill
				}
			}
		}
	}
	return b
}
