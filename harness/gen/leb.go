package gen

import "verifharness/fw"

// LEBMonster returns a LEB128 byte string no sane encoder writes but every parser must survive: nine, ten and more bytes,
// bit 63 and beyond set, values that turn negative or wrap when added to an offset, long non-minimal encodings, runs that never end.
func LEBMonster(r *fw.Rand) []byte {
	switch r.Intn(9) {
	case 0:
		return []byte{0x80, 0x80, 0x80, 0x80, 0x80, 0x80, 0x80, 0x80, 0x80, 0x01} // 2^63
	case 1:
		return []byte{0xFF, 0xFF, 0xFF, 0xFF, 0xFF, 0xFF, 0xFF, 0xFF, 0xFF, 0x01} // 2^64-1
	case 2:
		return []byte{0xFF, 0xFF, 0xFF, 0xFF, 0xFF, 0xFF, 0xFF, 0xFF, 0x7F} // 2^63-1
	case 3:
		return []byte{0xF0, 0xFF, 0xFF, 0xFF, 0xFF, 0xFF, 0xFF, 0xFF, 0x7F} // just below 2^63: overflows when an offset is added
	case 4:
		return []byte{0x80, 0x80, 0x80, 0x80, 0x80, 0x80, 0x80, 0x80, 0x80, 0x80, 0x80, 0x01} // twelve bytes
	case 5:
		b := make([]byte, r.Range(9, 20))
		for i := range b {
			b[i] = 0x80 | byte(r.Intn(128))
		}
		if r.Bool() {
			b[len(b)-1] &= 0x7F
		}
		return b // long, perhaps unterminated
	case 6:
		return []byte{0x85, 0x80, 0x80, 0x80, 0x80, 0x80, 0x80, 0x00} // 5, written in eight bytes
	case 7:
		return []byte{0xFF, 0xFF, 0xFF, 0xFF, 0x0F} // 2^32-1
	default:
		return []byte{0x80, 0x80, 0x80, 0x80, 0x10} // 2^32
	}
}

// LEB returns the minimal LEB128 encoding of v.
func LEB(v uint64) []byte {
	var b []byte
	for {
		c := byte(v & 0x7F)
		v >>= 7
		if v != 0 {
			b = append(b, c|0x80)
		} else {
			return append(b, c)
		}
	}
}
