package gen

import (
	"verifharness/fw"
)

// NALBody fills b (in place) so that it contains no start-code emulation
// (no 00 00 0x with x <= 2) and does not end in 00. 00 00 03 (the emulation
// prevention sequence every real encoder emits) does occur.
func NALBody(r *fw.Rand, b []byte) {
	r.Fill(b)
	// favour the bytes start-code scanners care about, without ever forming 00 00 0x (x <= 2): single zeros followed
	// by 01/02/03 (e.g. "40 00 01") are perfectly legal NAL content
	for i := range b {
		switch r.Intn(24) {
		case 0:
			b[i] = 0
		case 1:
			b[i] = 1
		case 2:
			b[i] = byte(r.Pick(2, 3))
		}
	}
	for i := range b {
		if i >= 2 && b[i-2] == 0 && b[i-1] == 0 && b[i] < 3 {
			b[i] = 0x40 | b[i]
		}
	}
	// the byte before the body (NAL header) is never 00 for H264; for H265 the second header byte is never 00 either,
	// so a body starting with 00 0x cannot complete a start code. The unit must not end in 00 (it would merge with the next start code).
	if len(b) > 0 && b[len(b)-1] == 0 {
		b[len(b)-1] = 0x80
	}
}

// H264Unit builds one NAL unit of the given type and total size (>= 2).
func H264Unit(r *fw.Rand, typ int, size int) []byte {
	if size < 2 {
		size = 2
	}
	u := make([]byte, size)
	NALBody(r, u[1:])
	u[0] = byte(r.Intn(4))<<5 | byte(typ)
	return u
}

// H264Size picks a unit size around the interesting thresholds of the MTU.
func H264Size(r *fw.Rand, mtu int) int {
	s := r.Pick(2, 3, mtu-2, mtu-1, mtu, mtu+1, mtu+2, mtu+3, 2*mtu-1, 2*mtu, 2*mtu+1, r.Range(2, 4*mtu+2), r.Range(2, 40), r.Range(2, mtu+4))
	if mtu > 2 && r.Chance(1, 5) {
		// k full FU-A fragments (mtu-2 payload bytes each) plus a last fragment of 0, 1 or 2 bytes
		s = 1 + r.Range(1, 5)*(mtu-2) + r.Pick(0, 1, 2)
	}
	if s < 2 {
		s = 2
	}
	if s > 140000 {
		s = 140000
	}
	return s
}

// AnnexB renders units with 3- or 4-byte start codes (chosen per unit).
func AnnexB(r *fw.Rand, units [][]byte) ([]byte, []int) {
	var out []byte
	var sc []int
	for _, u := range units {
		if r.Bool() {
			out = append(out, 0, 0, 1)
			sc = append(sc, 3)
		} else {
			out = append(out, 0, 0, 0, 1)
			sc = append(sc, 4)
		}
		out = append(out, u...)
	}
	return out, sc
}

// NALOK reports whether u can stand in an Annex-B stream as one unit: no start-code emulation (00 00 0x, x <= 2) and no trailing 00.
func NALOK(u []byte) bool {
	if len(u) == 0 || u[len(u)-1] == 0 {
		return false
	}
	for i := 2; i < len(u); i++ {
		if u[i-2] == 0 && u[i-1] == 0 && u[i] < 3 {
			return false
		}
	}
	return true
}
