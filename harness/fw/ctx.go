package fw

import (
	"encoding/hex"
	"fmt"
	"runtime/debug"
	"sort"
	"strings"
)

// Tier selects the size of the workload.
type Tier int

const (
	Quick Tier = iota
	Thorough
)

func (t Tier) String() string {
	if t == Thorough {
		return "thorough"
	}
	return "quick"
}

// Stratum is one family of cases of a property. Case i is a pure function of
// (seed, property, stratum name, i).
type Stratum struct {
	Name string
	// N is the fixed number of cases for the tier (never a time budget).
	N func(t Tier) int
	// Run executes case i and judges it through c.
	Run func(c *Ctx, i int)
	// Exhaustive: the N cases enumerate a finite domain completely.
	Exhaustive bool
	// Race: the stratum runs in the race-instrumented child only.
	Race bool
	// Serial: cases of this stratum are executed by one goroutine, in index
	// order (the stratum manages its own goroutines).
	Serial bool
}

// Prop is a property with its monitors.
type Prop struct {
	ID          string
	Level       string // exploration | fault_enumeration
	Rule        string
	Floor       int // minimum distinct non-trivial shapes for a "held" verdict
	Strata      []Stratum
	Assumptions []string
	Technique   string
}

var registry = map[string]*Prop{}

// Register adds a property to the registry.
func Register(p *Prop) { registry[p.ID] = p }

// Lookup returns a registered property.
func Lookup(id string) *Prop { return registry[id] }

// IDs lists registered property ids.
func IDs() []string {
	var out []string
	for k := range registry {
		out = append(out, k)
	}
	sort.Strings(out)
	return out
}

// Const returns a constant per-tier count function.
func Const(q, t int) func(Tier) int {
	return func(tier Tier) int {
		if tier == Thorough {
			return t
		}
		return q
	}
}

// Violation is one refuting observation.
type Violation struct {
	Sig     string         `json:"signature"`
	What    string         `json:"what"`
	Stratum string         `json:"stratum"`
	Index   int            `json:"index"`
	Witness map[string]any `json:"witness,omitempty"`
}

// acc accumulates what one worker observed.
type acc struct {
	evals    int64
	cases    int64
	shapes   map[uint64]struct{}
	counters map[string]int64
	samples  []sample
	viol     map[string]*violAgg
	harness  []string // harness self-check failures (=> inconclusive)
}

type sample struct {
	Stratum string `json:"stratum"`
	Index   int    `json:"index"`
	Value   any    `json:"case"`
}

type violAgg struct {
	Count int64     `json:"count"`
	First Violation `json:"first"`
}

func newAcc() *acc {
	return &acc{shapes: map[uint64]struct{}{}, counters: map[string]int64{}, viol: map[string]*violAgg{}}
}

func (a *acc) merge(b *acc) {
	a.evals += b.evals
	a.cases += b.cases
	for k := range b.shapes {
		a.shapes[k] = struct{}{}
	}
	for k, v := range b.counters {
		a.counters[k] += v
	}
	a.samples = append(a.samples, b.samples...)
	for k, v := range b.viol {
		if cur, ok := a.viol[k]; ok {
			cur.Count += v.Count
			if v.First.Stratum < cur.First.Stratum || (v.First.Stratum == cur.First.Stratum && v.First.Index < cur.First.Index) {
				cur.First = v.First
			}
		} else {
			cp := *v
			a.viol[k] = &cp
		}
	}
	a.harness = append(a.harness, b.harness...)
}

const maxSamplesPerStratum = 3

// Ctx is handed to Stratum.Run for one case.
type Ctx struct {
	R       *Rand
	Tier    Tier
	Seed    uint64
	Prop    string
	Stratum string
	Index   int
	Hooks   bool // the verif-tagged hooks are compiled in
	a       *acc
	nsamp   *int
}

// Evals counts library calls judged by an oracle.
func (c *Ctx) Evals(n int) { c.a.evals += int64(n) }

// Shape records the canonical shape key of a non-trivial case.
func (c *Ctx) Shape(key string) { c.a.shapes[HashString(c.Stratum+"|"+key)] = struct{}{} }

// Shapef is Shape with formatting.
func (c *Ctx) Shapef(format string, args ...any) { c.Shape(fmt.Sprintf(format, args...)) }

// Count bumps a named counter (assertions evaluated, strata hit, ...).
func (c *Ctx) Count(name string, n int) { c.a.counters[name] += int64(n) }

// Sample keeps the case (first few per stratum per worker) for the evidence file.
func (c *Ctx) Sample(v any) {
	if *c.nsamp >= maxSamplesPerStratum {
		return
	}
	*c.nsamp++
	c.a.samples = append(c.a.samples, sample{c.Stratum, c.Index, v})
}

// WantSample reports whether Sample would still keep something (lets callers
// avoid building expensive descriptions).
func (c *Ctx) WantSample() bool { return *c.nsamp < maxSamplesPerStratum }

// Fail records a violation. sig must identify the structured cause narrowly.
func (c *Ctx) Fail(sig, what string, witness map[string]any) {
	c.a.counters["violations_raw"]++
	if v, ok := c.a.viol[sig]; ok {
		v.Count++
		return
	}
	c.a.viol[sig] = &violAgg{Count: 1, First: Violation{Sig: sig, What: what, Stratum: c.Stratum, Index: c.Index, Witness: witness}}
}

// HarnessBug records a self-check failure of the harness (reference encoder and
// decoder disagree, generator produced something outside the domain). It makes
// the run inconclusive; it is never a VIOLATION.
func (c *Ctx) HarnessBug(what string) {
	if len(c.a.harness) < 5 {
		c.a.harness = append(c.a.harness, Trunc(fmt.Sprintf("%s[%d]: %s", c.Stratum, c.Index, what), 700))
	}
}

// Guard runs f under recover. It returns the panic value (nil if none) and a
// trimmed stack.
func Guard(f func()) (pv any, stack string) {
	defer func() {
		if r := recover(); r != nil {
			pv = r
			stack = trimStack(string(debug.Stack()))
		}
	}()
	f()
	return nil, ""
}

// PanicSite extracts the first pion/rtp frame (file:line) from a stack, used in
// signatures so that two different panics are two different findings.
func PanicSite(stack string) string {
	lines := strings.Split(stack, "\n")
	for _, l := range lines {
		l = strings.TrimSpace(l)
		if (strings.HasPrefix(l, "/repo/") || strings.Contains(l, "/pion/rtp")) && strings.Contains(l, ".go:") {
			if i := strings.Index(l, " +0x"); i > 0 {
				l = l[:i]
			}
			l = strings.TrimPrefix(l, "/repo/")
			// strip line number: keeps the signature stable under unrelated edits
			if j := strings.LastIndex(l, ":"); j > 0 {
				return l[:j]
			}
			return l
		}
	}
	return "unknown"
}

// PanicFunc extracts the first pion/rtp function name from a stack.
func PanicFunc(stack string) string {
	lines := strings.Split(stack, "\n")
	for _, l := range lines {
		l = strings.TrimSpace(l)
		if strings.HasPrefix(l, "github.com/pion/rtp") {
			if i := strings.LastIndex(l, "("); i > 0 {
				l = l[:i]
			}
			l = strings.TrimPrefix(l, "github.com/pion/rtp")
			l = strings.TrimPrefix(l, "/")
			l = strings.TrimPrefix(l, ".")
			return l
		}
	}
	return "unknown"
}

func trimStack(s string) string {
	lines := strings.Split(s, "\n")
	var keep []string
	for _, l := range lines {
		if strings.Contains(l, "runtime/debug.Stack") || strings.Contains(l, "fw.Guard") {
			continue
		}
		keep = append(keep, l)
		if len(keep) > 40 {
			break
		}
	}
	return strings.Join(keep, "\n")
}

// Hex renders bytes for witnesses (nil and empty are distinguished).
func Hex(b []byte) string {
	if b == nil {
		return "nil"
	}
	return hex.EncodeToString(b)
}

// HexList renders a list of byte strings.
func HexList(bs [][]byte) []string {
	out := make([]string, len(bs))
	for i, b := range bs {
		out[i] = Hex(b)
	}
	return out
}

// Trunc shortens long hex strings in samples.
func Trunc(s string, n int) string {
	if len(s) <= n {
		return s
	}
	return fmt.Sprintf("%s…(+%d chars)", s[:n], len(s)-n)
}

// W builds a witness map.
func W(kv ...any) map[string]any {
	m := map[string]any{}
	for i := 0; i+1 < len(kv); i += 2 {
		m[fmt.Sprint(kv[i])] = kv[i+1]
	}
	return m
}

// Exact returns a private copy of b whose capacity equals its length, so that
// any reslice beyond len(b) by the code under test panics instead of silently
// reading whatever follows in a larger allocation. nil stays nil.
func Exact(b []byte) []byte {
	if b == nil {
		return nil
	}
	c := make([]byte, len(b))
	copy(c, b)
	return c[:len(b):len(b)]
}

// Roomy returns a private copy of b with `extra` bytes of spare capacity that
// hold a canary pattern, and a function that reports whether the spare region
// was written to (a library that appends to, or reslices and writes into, the
// caller's slice modifies memory the caller owns beyond len).
func Roomy(b []byte, extra int) ([]byte, func() bool) {
	if b == nil {
		return nil, func() bool { return false }
	}
	full := make([]byte, len(b)+extra)
	copy(full, b)
	for i := len(b); i < len(full); i++ {
		full[i] = byte(0xC3 ^ i)
	}
	n := len(b)
	return full[:n], func() bool {
		for i := n; i < len(full); i++ {
			if full[i] != byte(0xC3^i) {
				return true
			}
		}
		return false
	}
}
