package fw

import (
	"context"
	"encoding/json"
	"fmt"
	"os"
	"os/exec"
	"path/filepath"
	"regexp"
	"sort"
	"strings"
	"time"
)

// DriverOpts configures the parent process of a check.
type DriverOpts struct {
	Prop     string
	Tier     Tier
	Seed     uint64
	PlainBin string
	RaceBin  string
	VerifDir string
	WorkDir  string // .build/<id>
	Hooks    bool
	Replay   string
	// CoverFunc is the output of `go tool covdata func` for the reach audit ("" = not run).
	CoverFunc string
}

// KnownFinding is one entry of /verif/known_findings.json.
type KnownFinding struct {
	Property  string `json:"property"`
	Signature string `json:"signature"`
	Status    string `json:"status"` // open | fixed
	Commit    string `json:"commit,omitempty"`
	What      string `json:"what"`
	Witness   string `json:"witness,omitempty"`
	Line      string `json:"line,omitempty"`
}

type knownFile struct {
	Findings []KnownFinding `json:"findings"`
}

func loadKnown(dir string) ([]KnownFinding, error) {
	b, err := os.ReadFile(filepath.Join(dir, "known_findings.json"))
	if err != nil {
		if os.IsNotExist(err) {
			return nil, nil
		}
		return nil, err
	}
	var k knownFile
	if err := json.Unmarshal(b, &k); err != nil {
		return nil, err
	}
	return k.Findings, nil
}

type replayFile struct {
	Property  string         `json:"property"`
	Tier      string         `json:"tier"`
	Seed      uint64         `json:"seed"`
	Stratum   string         `json:"stratum"`
	Index     int            `json:"index"`
	Race      bool           `json:"race_build"`
	Signature string         `json:"signature"`
	What      string         `json:"what"`
	Count     int64          `json:"occurrences_in_run"`
	Witness   map[string]any `json:"witness,omitempty"`
}

type childRun struct {
	res      *ChildResult
	err      string // abnormal termination description
	fatals   []Violation
	raceLogs []string
}

func stratumIndex(p *Prop, name string) int {
	for i := range p.Strata {
		if p.Strata[i].Name == name {
			return i
		}
	}
	return -1
}

func (o *DriverOpts) watchdog() time.Duration {
	// Generous wall-clock watchdog; its firing alone is never a violation.
	if o.Tier == Thorough {
		return 8 * time.Hour
	}
	return 25 * time.Minute
}

func runProc(bin string, args []string, env []string, logPath string, d time.Duration) (exit int, timedOut bool, err error) {
	ctx, cancel := context.WithTimeout(context.Background(), d)
	defer cancel()
	cmd := exec.CommandContext(ctx, bin, args...)
	lf, err := os.Create(logPath)
	if err != nil {
		return -1, false, err
	}
	defer lf.Close()
	cmd.Stdout = lf
	cmd.Stderr = lf
	cmd.Env = append(os.Environ(), env...)
	err = cmd.Run()
	if ctx.Err() == context.DeadlineExceeded {
		return -1, true, nil
	}
	if err != nil {
		if ee, ok := err.(*exec.ExitError); ok {
			return ee.ExitCode(), false, nil
		}
		return -1, false, err
	}
	return 0, false, nil
}

func tail(path string, n int) string {
	b, err := os.ReadFile(path)
	if err != nil {
		return ""
	}
	if len(b) > n {
		b = b[:n]
	}
	return string(b)
}

func (o *DriverOpts) runChild(p *Prop, race bool, onlyStr, onlyIdx int, tag string, d time.Duration) *childRun {
	bin := o.PlainBin
	if race {
		bin = o.RaceBin
	}
	out := filepath.Join(o.WorkDir, fmt.Sprintf("result-%s.json", tag))
	pin := filepath.Join(o.WorkDir, fmt.Sprintf("pin-%s.bin", tag))
	logf := filepath.Join(o.WorkDir, fmt.Sprintf("child-%s.log", tag))
	os.Remove(out)
	args := []string{"child", "-prop", p.ID, "-tier", o.Tier.String(), "-seed", fmt.Sprint(o.Seed), "-out", out, "-pin", pin,
		"-only-stratum", fmt.Sprint(onlyStr), "-only-index", fmt.Sprint(onlyIdx)}
	var env []string
	cr := &childRun{}
	if race {
		racelog := filepath.Join(o.WorkDir, fmt.Sprintf("racelog-%s", tag))
		old, _ := filepath.Glob(racelog + ".*")
		for _, f := range old {
			os.Remove(f)
		}
		env = append(env, "GORACE=halt_on_error=0 exitcode=0 history_size=3 log_path="+racelog)
		defer func() {
			cr.raceLogs, _ = filepath.Glob(racelog + ".*")
		}()
	}
	exit, timedOut, err := runProc(bin, args, env, logf, d)
	if err != nil {
		cr.err = "cannot start child: " + err.Error()
		return cr
	}
	if exit == 0 && !timedOut {
		b, err := os.ReadFile(out)
		if err == nil {
			var r ChildResult
			if json.Unmarshal(b, &r) == nil {
				cr.res = &r
				return cr
			}
		}
		cr.err = "child exited 0 without a readable result"
		return cr
	}
	if timedOut {
		cr.err = fmt.Sprintf("child exceeded the %s watchdog", d)
	} else {
		cr.err = fmt.Sprintf("child died with exit status %d", exit)
	}
	cr.err += "; log head: " + tail(logf, 1500)
	return cr
}

// pinpoint re-runs, alone, every case that was in flight when a child died.
func (o *DriverOpts) pinpoint(p *Prop, race bool, tag string) (fatals []Violation) {
	pin := filepath.Join(o.WorkDir, fmt.Sprintf("pin-%s.bin", tag))
	cands := ReadPinboard(pin)
	for k, c := range cands {
		if c[0] < 0 || c[0] >= len(p.Strata) {
			continue
		}
		solo := o.runChild(p, race, c[0], c[1], fmt.Sprintf("%s-solo%d", tag, k), 5*time.Minute)
		if solo.res != nil {
			continue // ran fine alone
		}
		logf := filepath.Join(o.WorkDir, fmt.Sprintf("child-%s-solo%d.log", tag, k))
		head := tail(logf, 4000)
		kind := "fatal"
		if strings.Contains(solo.err, "watchdog") {
			kind = "no-return"
		}
		site := PanicFunc(head)
		fatals = append(fatals, Violation{
			Sig:     fmt.Sprintf("%s/%s", kind, site),
			What:    "the library call did not return normally when this case was run alone in a fresh process: " + strings.SplitN(solo.err, ";", 2)[0],
			Stratum: p.Strata[c[0]].Name, Index: c[1],
			Witness: W("log_head", head),
		})
	}
	return fatals
}

var reRaceFrame = regexp.MustCompile(`^\s+([A-Za-z0-9_./*()\-\[\]]+)\(`)

// parseRaceLogs extracts deduplicated race reports: signature = the pair of
// innermost non-runtime frames of the two conflicting accesses.
func parseRaceLogs(files []string) map[string]*violAgg {
	out := map[string]*violAgg{}
	for _, f := range files {
		b, err := os.ReadFile(f)
		if err != nil {
			continue
		}
		blocks := strings.Split(string(b), "WARNING: DATA RACE")
		for _, blk := range blocks[1:] {
			lines := strings.Split(blk, "\n")
			var tops []string
			expect := false
			for _, l := range lines {
				t := strings.TrimSpace(l)
				if strings.HasPrefix(t, "Write at") || strings.HasPrefix(t, "Read at") || strings.HasPrefix(t, "Previous write at") || strings.HasPrefix(t, "Previous read at") ||
					strings.HasPrefix(t, "Atomic") || strings.HasPrefix(t, "Previous atomic") {
					expect = true
					continue
				}
				if expect {
					if m := reRaceFrame.FindStringSubmatch(l); m != nil {
						fn := m[1]
						if strings.HasPrefix(fn, "runtime.") || strings.HasPrefix(fn, "sync") || strings.HasPrefix(fn, "bytes.") || strings.HasPrefix(fn, "internal/") || strings.HasPrefix(fn, "encoding/") {
							continue // keep looking for the first frame outside the runtime
						}
						fn = strings.TrimPrefix(fn, "github.com/pion/rtp/")
						fn = strings.TrimPrefix(fn, "github.com/pion/")
						tops = append(tops, fn)
						expect = false
					} else if t == "" {
						expect = false
					}
				}
				if strings.HasPrefix(t, "Goroutine ") {
					break
				}
			}
			sort.Strings(tops)
			sig := "race/" + strings.Join(tops, "|")
			if v, ok := out[sig]; ok {
				v.Count++
				continue
			}
			if len(blk) > 6000 {
				blk = blk[:6000]
			}
			out[sig] = &violAgg{Count: 1, First: Violation{Sig: sig, What: "the Go race detector reported conflicting unsynchronised accesses", Stratum: "race-detector", Index: -1,
				Witness: W("report", "WARNING: DATA RACE"+blk, "log", f)}}
		}
	}
	return out
}

// Drive runs a check and returns the process exit code.
func Drive(o DriverOpts) int {
	t0 := time.Now()
	p := Lookup(o.Prop)
	if p == nil {
		fmt.Printf("INCONCLUSIVE property=%s unknown property\n", o.Prop)
		return 2
	}
	if err := os.MkdirAll(o.WorkDir, 0o755); err != nil {
		fmt.Printf("INCONCLUSIVE property=%s %v\n", o.Prop, err)
		return 2
	}
	known, err := loadKnown(o.VerifDir)
	if err != nil {
		fmt.Printf("INCONCLUSIVE property=%s cannot read known_findings.json: %v\n", o.Prop, err)
		return 2
	}

	onlyStr, onlyIdx := -1, -1
	replayRace := false
	if o.Replay == "" {
		// witnesses of earlier runs of this property are superseded by this run
		old, _ := filepath.Glob(filepath.Join(o.VerifDir, "replays", p.ID+"-*.json"))
		for _, f := range old {
			os.Remove(f)
		}
	}
	if o.Replay != "" {
		b, err := os.ReadFile(o.Replay)
		if err != nil {
			fmt.Printf("INCONCLUSIVE property=%s cannot read replay file: %v\n", o.Prop, err)
			return 2
		}
		var rf replayFile
		if err := json.Unmarshal(b, &rf); err != nil {
			fmt.Printf("INCONCLUSIVE property=%s bad replay file: %v\n", o.Prop, err)
			return 2
		}
		o.Seed = rf.Seed
		if rf.Tier == "thorough" {
			o.Tier = Thorough
		} else {
			o.Tier = Quick
		}
		onlyStr = stratumIndex(p, rf.Stratum)
		onlyIdx = rf.Index
		replayRace = rf.Race
		if onlyStr < 0 {
			// race-detector reports replay the whole race flavour
			onlyIdx = -1
		}
		fmt.Printf("replaying %s stratum=%s index=%d seed=%d tier=%s\n", o.Prop, rf.Stratum, rf.Index, rf.Seed, rf.Tier)
	}

	hasRace, hasPlain := false, false
	for _, s := range p.Strata {
		if s.Race {
			hasRace = true
		} else {
			hasPlain = true
		}
	}
	if o.Replay != "" {
		if replayRace {
			hasPlain = false
		} else {
			hasRace = false
		}
	}

	merged := newAcc()
	stats := map[string]*StratumStat{}
	var inconclusive []string
	var raceReports int64
	hooks := o.Hooks
	flavours := []bool{}
	if hasPlain {
		flavours = append(flavours, false)
	}
	if hasRace {
		flavours = append(flavours, true)
	}
	for _, race := range flavours {
		tag := "plain"
		if race {
			tag = "race"
			if o.RaceBin == "" {
				inconclusive = append(inconclusive, "race-instrumented binary unavailable")
				continue
			}
		}
		cr := o.runChild(p, race, onlyStr, onlyIdx, tag, o.watchdog())
		if cr.res == nil {
			// fatal error, hang or crash: find the killer
			fatals := o.pinpoint(p, race, tag)
			if len(fatals) == 0 {
				inconclusive = append(inconclusive, cr.err)
			}
			for _, f := range fatals {
				f := f
				if v, ok := merged.viol[f.Sig]; ok {
					v.Count++
				} else {
					merged.viol[f.Sig] = &violAgg{Count: 1, First: f}
				}
			}
		} else {
			a := newAcc()
			a.evals, a.cases, a.counters, a.samples, a.viol, a.harness = cr.res.Evals, cr.res.Cases, cr.res.Counters, cr.res.Samples, cr.res.Violations, cr.res.Harness
			if a.counters == nil {
				a.counters = map[string]int64{}
			}
			if a.viol == nil {
				a.viol = map[string]*violAgg{}
			}
			for _, s := range cr.res.Shapes {
				a.shapes[s] = struct{}{}
			}
			merged.merge(a)
			for k, v := range cr.res.Strata {
				stats[k] = v
			}
		}
		if race {
			for sig, v := range parseRaceLogs(cr.raceLogs) {
				raceReports += v.Count
				// keep a copy of the report next to the replays
				merged.viol[sig] = v
			}
		}
	}

	// classify
	openKnown := map[string]KnownFinding{}
	for _, k := range known {
		if k.Property == p.ID && k.Status == "open" {
			openKnown[k.Signature] = k
		}
	}
	var sigs []string
	for s := range merged.viol {
		sigs = append(sigs, s)
	}
	sort.Strings(sigs)
	os.MkdirAll(filepath.Join(o.VerifDir, "replays"), 0o755)
	nViol, nKnown := 0, 0
	var violList, knownList []map[string]any
	for _, s := range sigs {
		v := merged.viol[s]
		if k, ok := openKnown[s]; ok {
			nKnown++
			fmt.Printf("KNOWN-FINDING: property=%s %s %s (seen %d times in this run)\n", p.ID, s, k.What, v.Count)
			knownList = append(knownList, map[string]any{"signature": s, "occurrences": v.Count})
			continue
		}
		nViol++
		isRace := v.First.Stratum == "race-detector"
		if si := stratumIndex(p, v.First.Stratum); si >= 0 && p.Strata[si].Race {
			isRace = true
		}
		rf := replayFile{Property: p.ID, Tier: o.Tier.String(), Seed: o.Seed, Stratum: v.First.Stratum, Index: v.First.Index, Race: isRace,
			Signature: s, What: v.First.What, Count: v.Count, Witness: v.First.Witness}
		name := fmt.Sprintf("%s-%016x.json", p.ID, HashString(s+fmt.Sprint(o.Seed, v.First.Stratum, v.First.Index)))
		path := filepath.Join(o.VerifDir, "replays", name)
		b, _ := json.MarshalIndent(rf, "", " ")
		os.WriteFile(path, b, 0o644)
		if nViol <= 25 {
			fmt.Printf("VIOLATION property=%s replay=%s\n", p.ID, path)
			fmt.Printf("  signature=%s occurrences=%d stratum=%s index=%d: %s\n", s, v.Count, v.First.Stratum, v.First.Index, v.First.What)
		}
		violList = append(violList, map[string]any{"signature": s, "occurrences": v.Count, "replay": path, "what": v.First.What})
	}

	distinct := len(merged.shapes)
	if len(merged.harness) > 0 {
		inconclusive = append(inconclusive, "harness self-check failed: "+strings.Join(merged.harness, " | "))
	}
	if o.Replay == "" && nViol == 0 && len(inconclusive) == 0 && distinct < p.Floor {
		inconclusive = append(inconclusive, fmt.Sprintf("only %d distinct non-trivial shapes observed, floor is %d", distinct, p.Floor))
	}

	verdict := "held_on_observed"
	exit := 0
	if nViol > 0 {
		verdict, exit = "violated", 1
	} else if len(inconclusive) > 0 {
		verdict, exit = "inconclusive", 2
	}

	if o.Replay == "" {
		writeEvidence(o, p, merged, stats, distinct, verdict, inconclusive, violList, knownList, raceReports, hooks, time.Since(t0).Seconds(), hasRace)
	}
	for _, m := range inconclusive {
		fmt.Printf("INCONCLUSIVE property=%s %s\n", p.ID, m)
	}
	fmt.Printf("%s %s tier=%s seed=%d verdict=%s cases=%d evaluations=%d distinct_nontrivial=%d violations=%d known_findings=%d race_reports=%d wall=%.1fs\n",
		p.ID, map[bool]string{true: "replay", false: "check"}[o.Replay != ""], o.Tier, o.Seed, verdict, merged.cases, merged.evals, distinct, nViol, nKnown, raceReports, time.Since(t0).Seconds())
	return exit
}

func writeEvidence(o DriverOpts, p *Prop, m *acc, stats map[string]*StratumStat, distinct int, verdict string, inconclusive []string,
	viol, known []map[string]any, raceReports int64, hooks bool, wall float64, hasRace bool) {
	var samples []any
	for _, s := range m.samples {
		samples = append(samples, s)
	}
	if len(samples) == 0 {
		samples = append(samples, map[string]any{"note": "no case was sampled (run observed nothing)"})
	}
	if len(samples) > 24 {
		samples = samples[:24]
	}
	allExh := len(stats) > 0
	var exhNames []string
	for k, s := range stats {
		if s.Exhaustive {
			exhNames = append(exhNames, k)
		} else {
			allExh = false
		}
	}
	sort.Strings(exhNames)
	cov := map[string]any{
		"evaluations":         m.evals,
		"cases":               m.cases,
		"distinct_nontrivial": distinct,
		"rule":                p.Rule,
		"samples":             samples,
		"exhaustive":          allExh,
		"exhaustive_strata":   exhNames,
		"strata":              stats,
		"monitor_counters":    m.counters,
		"verdict":             verdict,
		"violations":          viol,
		"known_findings":      known,
		"hooks":               map[bool]string{true: "on", false: "unavailable"}[hooks],
		"floor":               p.Floor,
	}
	if hasRace {
		cov["race_detector_reports"] = raceReports
	}
	if len(inconclusive) > 0 {
		cov["inconclusive_reasons"] = inconclusive
	}
	if ra := reachAudit(o, p); ra != nil {
		cov["reach_audit"] = ra
	}
	ev := map[string]any{
		"property_id": p.ID,
		"tier":        o.Tier.String(),
		"seed":        int64(o.Seed),
		"level":       p.Level,
		"coverage":    cov,
		"assumptions": p.Assumptions,
		"wall_s":      wall,
		"violations":  len(viol),
	}
	b, _ := json.MarshalIndent(ev, "", " ")
	dir := filepath.Join(o.VerifDir, "evidence")
	os.MkdirAll(dir, 0o755)
	tmp := filepath.Join(dir, p.ID+".json.tmp")
	os.WriteFile(tmp, b, 0o644)
	os.Rename(tmp, filepath.Join(dir, p.ID+".json"))
}

// reachAudit reads `go tool covdata func` output and reports the statement
// coverage of every library function in the files the property is anchored in
// (from properties.jsonl), as reached by the quick-sized workload on a
// coverage-instrumented build.
func reachAudit(o DriverOpts, p *Prop) map[string]any {
	if o.CoverFunc == "" {
		return nil
	}
	b, err := os.ReadFile(o.CoverFunc)
	if err != nil {
		return nil
	}
	files := map[string]bool{}
	if pb, err := os.ReadFile(filepath.Join(o.VerifDir, "properties.jsonl")); err == nil {
		for _, line := range strings.Split(string(pb), "\n") {
			var rec struct {
				ID      string `json:"id"`
				Anchors struct {
					Files []string `json:"files"`
				} `json:"anchors"`
			}
			if json.Unmarshal([]byte(line), &rec) == nil && rec.ID == p.ID {
				for _, f := range rec.Anchors.Files {
					files["github.com/pion/rtp/"+f] = true
				}
			}
		}
	}
	funcs := map[string]string{}
	var zero []string
	n := 0
	for _, line := range strings.Split(string(b), "\n") {
		f := strings.Fields(line)
		if len(f) != 3 || !strings.HasSuffix(f[2], "%") {
			continue
		}
		loc := strings.SplitN(f[0], ":", 2)
		if !files[loc[0]] {
			continue
		}
		name := strings.TrimPrefix(loc[0], "github.com/pion/rtp/") + ":" + f[1]
		funcs[name] = f[2]
		n++
		if f[2] == "0.0%" {
			zero = append(zero, name)
		}
	}
	if n == 0 {
		return nil
	}
	sort.Strings(zero)
	return map[string]any{
		"how":                         "quick-sized workload of this property (plain-build strata) on a `go build -cover` binary; `go tool covdata func`",
		"anchor_files":                len(files),
		"functions":                   n,
		"function_statement_coverage": funcs,
		"functions_not_reached":       zero,
	}
}
