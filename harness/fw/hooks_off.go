//go:build !verif

package fw

// HooksEnabled reports whether the verif-tagged hooks of /repo are compiled in.
const HooksEnabled = false
