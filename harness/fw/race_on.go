//go:build race

package fw

// RaceEnabled reports whether this binary is race-instrumented.
const RaceEnabled = true
