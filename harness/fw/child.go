package fw

import (
	"encoding/binary"
	"encoding/json"
	"fmt"
	"os"
	"runtime"
	"sort"
	"sync"
	"syscall"
)

// ChildResult is what a child process reports back to the driver.
type ChildResult struct {
	Prop       string                  `json:"prop"`
	Race       bool                    `json:"race"`
	Hooks      bool                    `json:"hooks"`
	Evals      int64                   `json:"evals"`
	Cases      int64                   `json:"cases"`
	Shapes     []uint64                `json:"shapes"`
	Counters   map[string]int64        `json:"counters"`
	Samples    []sample                `json:"samples"`
	Violations map[string]*violAgg     `json:"violations"`
	Harness    []string                `json:"harness"`
	Strata     map[string]*StratumStat `json:"strata"`
}

// StratumStat is the per-stratum part of the evidence.
type StratumStat struct {
	Cases      int64 `json:"cases"`
	Evals      int64 `json:"evaluations"`
	Distinct   int   `json:"distinct_nontrivial"`
	Exhaustive bool  `json:"exhaustive"`
	Race       bool  `json:"race_build"`
}

const slotSize = 64
const maxSlots = 64

// pinboard is a shared file mapping in which every worker notes the case it
// is about to run; it survives the death of the process, so the driver can
// find the cases that were in flight when a fatal error (not recoverable by
// recover) or a hang killed the child.
type pinboard struct{ mem []byte }

func openPinboard(path string) (*pinboard, error) {
	f, err := os.OpenFile(path, os.O_RDWR|os.O_CREATE|os.O_TRUNC, 0o644)
	if err != nil {
		return nil, err
	}
	defer f.Close()
	if err := f.Truncate(slotSize * maxSlots); err != nil {
		return nil, err
	}
	mem, err := syscall.Mmap(int(f.Fd()), 0, slotSize*maxSlots, syscall.PROT_READ|syscall.PROT_WRITE, syscall.MAP_SHARED)
	if err != nil {
		return nil, err
	}
	return &pinboard{mem: mem}, nil
}

func (p *pinboard) note(slot int, stratum int, idx int, active bool) {
	if p == nil {
		return
	}
	b := p.mem[slot*slotSize:]
	if active {
		binary.LittleEndian.PutUint64(b[8:], uint64(stratum))
		binary.LittleEndian.PutUint64(b[16:], uint64(idx))
		binary.LittleEndian.PutUint64(b[0:], 1)
	} else {
		binary.LittleEndian.PutUint64(b[0:], 0)
	}
}

// ReadPinboard returns the (stratum index, case index) pairs in flight.
func ReadPinboard(path string) [][2]int {
	b, err := os.ReadFile(path)
	if err != nil {
		return nil
	}
	var out [][2]int
	for s := 0; s+slotSize <= len(b); s += slotSize {
		if binary.LittleEndian.Uint64(b[s:]) == 1 {
			out = append(out, [2]int{int(binary.LittleEndian.Uint64(b[s+8:])), int(binary.LittleEndian.Uint64(b[s+16:]))})
		}
	}
	return out
}

// ChildOpts configures one child run.
type ChildOpts struct {
	Prop     string
	Tier     Tier
	Seed     uint64
	Out      string
	Pin      string
	OnlyStr  int // -1: all
	OnlyIdx  int
	Workers  int
	Hooks    bool
	RaceMode bool
}

type job struct {
	si, lo, hi int
}

// RunChild executes the strata of a property that belong to this build flavour.
func RunChild(o ChildOpts) error {
	p := Lookup(o.Prop)
	if p == nil {
		return fmt.Errorf("unknown property %s", o.Prop)
	}
	var pin *pinboard
	if o.Pin != "" {
		var err error
		pin, err = openPinboard(o.Pin)
		if err != nil {
			return err
		}
	}
	workers := o.Workers
	if workers <= 0 {
		workers = runtime.GOMAXPROCS(0)
	}
	if workers > maxSlots-1 {
		workers = maxSlots - 1
	}

	total := newAcc()
	stats := map[string]*StratumStat{}
	var mu sync.Mutex

	runRange := func(slot int, a *acc, si, lo, hi int, perStratumShapes map[uint64]struct{}) {
		st := &p.Strata[si]
		nsamp := 0
		for i := lo; i < hi; i++ {
			c := &Ctx{R: NewRand(o.Seed, p.ID, st.Name, i), Tier: o.Tier, Seed: o.Seed, Prop: p.ID, Stratum: st.Name, Index: i, Hooks: o.Hooks, a: a, nsamp: &nsamp}
			pin.note(slot, si, i, true)
			pv, stack := Guard(func() { st.Run(c, i) })
			pin.note(slot, si, i, false)
			if pv != nil {
				// A panic that escaped a monitor's own guard: attribute it.
				site := PanicFunc(stack)
				if site == "unknown" {
					c.HarnessBug(fmt.Sprintf("harness panic: %v\n%s", pv, stack))
				} else {
					c.Fail("panic/"+site, fmt.Sprintf("library panicked: %v", pv), W("panic", fmt.Sprint(pv), "stack", stack))
				}
			}
			a.cases++
		}
	}

	for si := range p.Strata {
		st := &p.Strata[si]
		if st.Race != o.RaceMode {
			continue
		}
		if o.OnlyStr >= 0 && o.OnlyStr != si {
			continue
		}
		n := st.N(o.Tier)
		if sc := os.Getenv("VERIF_SCALE"); sc != "" && !st.Exhaustive {
			// used by tools/mutscreen.py only (screening many mutants cheaply); registered checks never set it
			var f float64
			if _, err := fmt.Sscanf(sc, "%g", &f); err == nil && f > 0 {
				n = int(float64(n) * f)
				if n < 1 {
					n = 1
				}
			}
		}
		lo0, hi0 := 0, n
		if o.OnlyStr >= 0 && o.OnlyIdx >= 0 {
			lo0, hi0 = o.OnlyIdx, o.OnlyIdx+1
		}
		sacc := newAcc()
		if st.Serial || hi0-lo0 <= 1 {
			runRange(0, sacc, si, lo0, hi0, nil)
		} else {
			chunk := (hi0 - lo0) / (workers * 16)
			if chunk < 1 {
				chunk = 1
			}
			jobs := make(chan job, 64)
			var wg sync.WaitGroup
			for w := 0; w < workers; w++ {
				wg.Add(1)
				go func(slot int) {
					defer wg.Done()
					a := newAcc()
					for j := range jobs {
						runRange(slot, a, j.si, j.lo, j.hi, nil)
					}
					mu.Lock()
					sacc.merge(a)
					mu.Unlock()
				}(w + 1)
			}
			for lo := lo0; lo < hi0; lo += chunk {
				hi := lo + chunk
				if hi > hi0 {
					hi = hi0
				}
				jobs <- job{si, lo, hi}
			}
			close(jobs)
			wg.Wait()
		}
		stats[st.Name] = &StratumStat{Cases: sacc.cases, Evals: sacc.evals, Distinct: len(sacc.shapes), Exhaustive: st.Exhaustive, Race: st.Race}
		total.merge(sacc)
	}

	res := ChildResult{Prop: p.ID, Race: o.RaceMode, Hooks: o.Hooks, Evals: total.evals, Cases: total.cases, Counters: total.counters,
		Violations: total.viol, Harness: total.harness, Strata: stats}
	for k := range total.shapes {
		res.Shapes = append(res.Shapes, k)
	}
	sort.Slice(res.Shapes, func(i, j int) bool { return res.Shapes[i] < res.Shapes[j] })
	// deterministic, small sample set: per stratum the lowest indices
	sort.Slice(total.samples, func(i, j int) bool {
		if total.samples[i].Stratum != total.samples[j].Stratum {
			return total.samples[i].Stratum < total.samples[j].Stratum
		}
		return total.samples[i].Index < total.samples[j].Index
	})
	per := map[string]int{}
	for _, s := range total.samples {
		if per[s.Stratum] < 2 {
			per[s.Stratum]++
			res.Samples = append(res.Samples, s)
		}
	}
	b, err := json.Marshal(res)
	if err != nil {
		return err
	}
	return os.WriteFile(o.Out, b, 0o644)
}
