// Package fw is the runtime-monitoring framework: deterministic case streams,
// per-case contexts, crash containment, evidence and known-finding handling.
package fw

// Rand is a splitmix64 stream. Every case gets its own stream derived from
// (seed, property, stratum, index) so that a case is a pure function of those.
type Rand struct{ s uint64 }

func mix(z uint64) uint64 {
	z += 0x9E3779B97F4A7C15
	z = (z ^ (z >> 30)) * 0xBF58476D1CE4E5B9
	z = (z ^ (z >> 27)) * 0x94D049BB133111EB
	return z ^ (z >> 31)
}

// HashString is FNV-1a 64.
func HashString(s string) uint64 {
	h := uint64(1469598103934665603)
	for i := 0; i < len(s); i++ {
		h ^= uint64(s[i])
		h *= 1099511628211
	}
	return h
}

// NewRand builds the stream for one case.
func NewRand(seed uint64, prop, stratum string, idx int) *Rand {
	s := mix(seed ^ 0xA5A5A5A55A5A5A5A)
	s = mix(s ^ HashString(prop))
	s = mix(s ^ HashString(stratum))
	s = mix(s ^ uint64(idx))
	return &Rand{s: s}
}

// U64 returns the next 64 random bits.
func (r *Rand) U64() uint64 {
	r.s += 0x9E3779B97F4A7C15
	z := r.s
	z = (z ^ (z >> 30)) * 0xBF58476D1CE4E5B9
	z = (z ^ (z >> 27)) * 0x94D049BB133111EB
	return z ^ (z >> 31)
}

// Intn returns a value in [0,n).
func (r *Rand) Intn(n int) int {
	if n <= 0 {
		return 0
	}
	return int(r.U64() % uint64(n))
}

// Range returns a value in [lo,hi].
func (r *Rand) Range(lo, hi int) int {
	if hi <= lo {
		return lo
	}
	return lo + r.Intn(hi-lo+1)
}

// Bool is a fair coin.
func (r *Rand) Bool() bool { return r.U64()&1 == 1 }

// Chance is true with probability num/den.
func (r *Rand) Chance(num, den int) bool { return r.Intn(den) < num }

// Bytes returns n random bytes.
func (r *Rand) Bytes(n int) []byte {
	b := make([]byte, n)
	r.Fill(b)
	return b
}

// Fill fills b with random bytes.
func (r *Rand) Fill(b []byte) {
	i := 0
	for i+8 <= len(b) {
		v := r.U64()
		b[i], b[i+1], b[i+2], b[i+3] = byte(v), byte(v>>8), byte(v>>16), byte(v>>24)
		b[i+4], b[i+5], b[i+6], b[i+7] = byte(v>>32), byte(v>>40), byte(v>>48), byte(v>>56)
		i += 8
	}
	if i < len(b) {
		v := r.U64()
		for ; i < len(b); i++ {
			b[i] = byte(v)
			v >>= 8
		}
	}
}

// Pick returns one of the given ints.
func (r *Rand) Pick(vs ...int) int { return vs[r.Intn(len(vs))] }

// PickU64 returns one of the given values.
func (r *Rand) PickU64(vs ...uint64) uint64 { return vs[r.Intn(len(vs))] }

// Perm returns a random permutation of 0..n-1.
func (r *Rand) Perm(n int) []int {
	p := make([]int, n)
	for i := range p {
		p[i] = i
	}
	for i := n - 1; i > 0; i-- {
		j := r.Intn(i + 1)
		p[i], p[j] = p[j], p[i]
	}
	return p
}
