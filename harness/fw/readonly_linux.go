//go:build linux

package fw

import (
	"runtime/debug"
	"sync"
	"syscall"
)

// Write-protected inputs: a runtime monitor for "the callee does not write into the caller's buffer" that also sees writes which
// are undone before the call returns (a transient stopper byte, a swap-and-restore). The input is copied to the END of an anonymous
// mapping which is then made read-only; any store into it faults, and with debug.SetPanicOnFault the fault is an ordinary panic
// that GuardFault reports. (Real inputs do live in read-only memory: file mappings, shared capture buffers.)

const roRegion = 1 << 17 // 128 KiB per region

var roPool = sync.Pool{New: func() any {
	b, err := syscall.Mmap(-1, 0, roRegion, syscall.PROT_READ|syscall.PROT_WRITE, syscall.MAP_ANON|syscall.MAP_PRIVATE)
	if err != nil {
		return []byte(nil)
	}
	return b
}}

// ReadOnly returns a write-protected copy of b (cap == len, placed flush against the end of its mapping) and a release function
// that must be called once nothing refers to the copy any more. ok is false when b is nil, too long, or the mapping failed: the
// caller then uses an ordinary copy.
func ReadOnly(b []byte) (ro []byte, release func(), ok bool) {
	if b == nil || len(b) > roRegion {
		return nil, func() {}, false
	}
	reg, _ := roPool.Get().([]byte)
	if reg == nil {
		return nil, func() {}, false
	}
	off := roRegion - len(b)
	copy(reg[off:], b)
	if err := syscall.Mprotect(reg, syscall.PROT_READ); err != nil {
		roPool.Put(reg)
		return nil, func() {}, false
	}
	return reg[off:roRegion:roRegion], func() {
		if syscall.Mprotect(reg, syscall.PROT_READ|syscall.PROT_WRITE) == nil {
			roPool.Put(reg)
		}
	}, true
}

// GuardFault is Guard with memory faults turned into panics for the duration of f. fault reports whether the panic was a fault
// (for a write-protected input: a store into the caller's buffer).
func GuardFault(f func()) (pv any, stack string, fault bool) {
	pv, stack = Guard(func() {
		defer debug.SetPanicOnFault(debug.SetPanicOnFault(true))
		f()
	})
	if pv != nil {
		// a fault turned into a panic carries the faulting address (runtime.Error with an Addr method); a plain nil dereference does not
		if _, ok := pv.(interface{ Addr() uintptr }); ok {
			fault = true
		}
	}
	return
}
