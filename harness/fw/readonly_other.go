//go:build !linux

package fw

// ReadOnly is unavailable off Linux: callers fall back to ordinary copies.
func ReadOnly(b []byte) ([]byte, func(), bool) { return nil, func() {}, false }

// GuardFault degrades to Guard.
func GuardFault(f func()) (pv any, stack string, fault bool) {
	pv, stack = Guard(f)
	return pv, stack, false
}
