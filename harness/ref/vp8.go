package ref

import "fmt"

// VP8Desc is an RFC 7741 section 4.2 payload descriptor.
type VP8Desc struct {
	X, R1, N, S, R2 bool
	PID             uint8 // 3 bits
	I, L, T, K      bool
	RSV             uint8 // 4 bits of the extension byte
	M               bool
	PictureID       uint16 // 7 or 15 bits
	TL0PICIDX       uint8
	TID             uint8 // 2 bits
	Y               bool
	KEYIDX          uint8 // 5 bits
}

func bit(b bool, n uint) byte {
	if b {
		return 1 << n
	}
	return 0
}

// Encode renders the descriptor.
func (d *VP8Desc) Encode() []byte {
	out := []byte{bit(d.X, 7) | bit(d.R1, 6) | bit(d.N, 5) | bit(d.S, 4) | bit(d.R2, 3) | d.PID&7}
	if !d.X {
		return out
	}
	out = append(out, bit(d.I, 7)|bit(d.L, 6)|bit(d.T, 5)|bit(d.K, 4)|d.RSV&0x0F)
	if d.I {
		if d.M {
			out = append(out, 0x80|byte(d.PictureID>>8)&0x7F, byte(d.PictureID))
		} else {
			out = append(out, byte(d.PictureID)&0x7F)
		}
	}
	if d.L {
		out = append(out, d.TL0PICIDX)
	}
	if d.T || d.K {
		out = append(out, d.TID<<6|bit(d.Y, 5)|d.KEYIDX&0x1F)
	}
	return out
}

// VP8Parse is the independent descriptor parser; it returns the descriptor
// and its length.
func VP8Parse(p []byte) (*VP8Desc, int, error) {
	if len(p) < 1 {
		return nil, 0, fmt.Errorf("empty")
	}
	d := &VP8Desc{X: p[0]&0x80 != 0, R1: p[0]&0x40 != 0, N: p[0]&0x20 != 0, S: p[0]&0x10 != 0, R2: p[0]&0x08 != 0, PID: p[0] & 7}
	n := 1
	if !d.X {
		return d, n, nil
	}
	if len(p) < 2 {
		return nil, 0, fmt.Errorf("cut in the extension byte")
	}
	d.I, d.L, d.T, d.K, d.RSV = p[1]&0x80 != 0, p[1]&0x40 != 0, p[1]&0x20 != 0, p[1]&0x10 != 0, p[1]&0x0F
	n = 2
	if d.I {
		if len(p) <= n {
			return nil, 0, fmt.Errorf("cut in the picture id")
		}
		if p[n]&0x80 != 0 {
			if len(p) <= n+1 {
				return nil, 0, fmt.Errorf("cut in the extended picture id")
			}
			d.M = true
			d.PictureID = uint16(p[n]&0x7F)<<8 | uint16(p[n+1])
			n += 2
		} else {
			d.PictureID = uint16(p[n])
			n++
		}
	}
	if d.L {
		if len(p) <= n {
			return nil, 0, fmt.Errorf("cut in TL0PICIDX")
		}
		d.TL0PICIDX = p[n]
		n++
	}
	if d.T || d.K {
		if len(p) <= n {
			return nil, 0, fmt.Errorf("cut in TID/KEYIDX")
		}
		d.TID, d.Y, d.KEYIDX = p[n]>>6, p[n]&0x20 != 0, p[n]&0x1F
		n++
	}
	return d, n, nil
}
