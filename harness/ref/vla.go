package ref

import "sort"

// VLALayer is one active spatial layer of a video-layers-allocation00 value.
type VLALayer struct {
	Stream, Spatial int
	Kbps            []int // one per temporal layer (1-4)
	W, H, FPS       int
}

// VLA is a library-independent Video Layers Allocation value.
type VLA struct {
	RID, Streams int
	Layers       []VLALayer // ordered by (Stream, Spatial)
	HasRes       bool
}

// LEB128 encodes v (unsigned little-endian base 128).
func LEB128(v uint64) []byte {
	var out []byte
	for {
		b := byte(v & 0x7F)
		v >>= 7
		if v != 0 {
			out = append(out, b|0x80)
		} else {
			return append(out, b)
		}
	}
}

// ReadLEB128 decodes; n = 0 when the input ends inside the number.
func ReadLEB128(b []byte) (v uint64, n int) {
	for i, x := range b {
		if i < 10 {
			v |= uint64(x&0x7F) << (7 * uint(i))
		}
		if x&0x80 == 0 {
			return v, i + 1
		}
	}
	return 0, 0
}

// EncodeVLA renders the value per
// https://webrtc.googlesource.com/src/+/refs/heads/main/docs/native-code/rtp-hdrext/video-layers-allocation00 :
//
//	RID(2) NS-1(2) sl_bm(4) | [slX_bm nibbles, ceil(NS/2) bytes, iff sl_bm == 0] |
//	#tl-1 (2 bits per active layer, zero-filled to a byte) | LEB128 kbps per temporal layer |
//	[width-1 (16) height-1 (16) fps (8) per active layer]
//
// sl_bm is the common bitmask when it is the same for all RTP streams, else 0.
func EncodeVLA(v *VLA) []byte {
	ls := append([]VLALayer(nil), v.Layers...)
	sort.SliceStable(ls, func(i, j int) bool {
		if ls[i].Stream != ls[j].Stream {
			return ls[i].Stream < ls[j].Stream
		}
		return ls[i].Spatial < ls[j].Spatial
	})
	var masks [4]byte
	for _, l := range ls {
		masks[l.Stream] |= 1 << uint(l.Spatial)
	}
	shared := masks[0] != 0
	for s := 1; s < v.Streams; s++ {
		if masks[s] != masks[0] {
			shared = false
		}
	}
	out := []byte{byte(v.RID)<<6 | byte(v.Streams-1)<<4}
	if shared {
		out[0] |= masks[0]
	} else {
		for s := 0; s < v.Streams; s += 2 {
			b := masks[s] << 4
			if s+1 < v.Streams {
				b |= masks[s+1]
			}
			out = append(out, b)
		}
	}
	var cur byte
	nb := 0
	for _, l := range ls {
		cur |= byte(len(l.Kbps)-1) << uint(6-2*nb)
		nb++
		if nb == 4 {
			out = append(out, cur)
			cur, nb = 0, 0
		}
	}
	if nb > 0 {
		out = append(out, cur)
	}
	for _, l := range ls {
		for _, k := range l.Kbps {
			out = append(out, LEB128(uint64(k))...)
		}
	}
	if v.HasRes {
		for _, l := range ls {
			out = append(out, byte((l.W-1)>>8), byte(l.W-1), byte((l.H-1)>>8), byte(l.H-1), byte(l.FPS))
		}
	}
	return out
}

// DecodeVLA is the inverse (used to cross-check the encoder).
func DecodeVLA(b []byte) (*VLA, int, bool) {
	if len(b) < 1 {
		return nil, 0, false
	}
	v := &VLA{RID: int(b[0] >> 6), Streams: int(b[0]>>4&3) + 1}
	var masks [4]byte
	off := 1
	if m := b[0] & 0x0F; m != 0 {
		for s := 0; s < v.Streams; s++ {
			masks[s] = m
		}
	} else {
		nb := (v.Streams + 1) / 2
		if len(b) < off+nb {
			return nil, 0, false
		}
		for s := 0; s < v.Streams; s++ {
			x := b[off+s/2]
			if s%2 == 0 {
				masks[s] = x >> 4
			} else {
				masks[s] = x & 0x0F
			}
		}
		off += nb
	}
	for s := 0; s < v.Streams; s++ {
		for sp := 0; sp < 4; sp++ {
			if masks[s]&(1<<uint(sp)) != 0 {
				v.Layers = append(v.Layers, VLALayer{Stream: s, Spatial: sp})
			}
		}
	}
	ntl := (len(v.Layers) + 3) / 4
	if len(v.Layers) == 0 || len(b) < off+ntl {
		return nil, 0, false
	}
	for i := range v.Layers {
		n := int(b[off+i/4]>>uint(6-2*(i%4))&3) + 1
		v.Layers[i].Kbps = make([]int, n)
	}
	off += ntl
	for i := range v.Layers {
		for j := range v.Layers[i].Kbps {
			x, n := ReadLEB128(b[off:])
			if n == 0 {
				return nil, 0, false
			}
			v.Layers[i].Kbps[j] = int(x)
			off += n
		}
	}
	if off == len(b) {
		return v, off, true
	}
	if len(b) < off+5*len(v.Layers) {
		return nil, 0, false
	}
	v.HasRes = true
	for i := range v.Layers {
		v.Layers[i].W = int(b[off])<<8 + int(b[off+1]) + 1
		v.Layers[i].H = int(b[off+2])<<8 + int(b[off+3]) + 1
		v.Layers[i].FPS = int(b[off+4])
		off += 5
	}
	return v, off, true
}
