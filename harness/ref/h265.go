package ref

import (
	"encoding/binary"
	"fmt"
)

// H265Hdr is the two-byte NAL unit / payload header of RFC 7798 section 1.1.4.
type H265Hdr struct {
	F     bool
	Type  uint8 // 6 bits
	Layer uint8 // 6 bits
	TID   uint8 // 3 bits
}

// Bytes renders the header.
func (h H265Hdr) Bytes() []byte {
	v := uint16(h.Type&0x3F)<<9 | uint16(h.Layer&0x3F)<<3 | uint16(h.TID&7)
	if h.F {
		v |= 0x8000
	}
	return []byte{byte(v >> 8), byte(v)}
}

// ParseH265Hdr decodes the header.
func ParseH265Hdr(b []byte) H265Hdr {
	v := binary.BigEndian.Uint16(b)
	return H265Hdr{F: v&0x8000 != 0, Type: uint8(v >> 9 & 0x3F), Layer: uint8(v >> 3 & 0x3F), TID: uint8(v & 7)}
}

// H265Parsed is one payload parsed per RFC 7798 section 4.4.
type H265Parsed struct {
	Kind    string // single | ap | fu | paci
	Hdr     H265Hdr
	DONL    *uint16
	Payload []byte   // single: NAL payload after header(+DONL); fu: fragment payload; paci: PACI payload
	Units   [][]byte // ap: complete NAL units
	DONDs   []uint8  // ap with DONL: one per unit after the first
	S, E    bool
	FuType  uint8
	// PACI
	A             bool
	CType         uint8
	PHSsize       uint8
	F0, F1, F2, Y bool
	PHES          []byte
}

// H265Parse parses one payload. donl: sprop-max-don-diff > 0. fuDONLEverywhere
// selects the deviant layout in which every FU (not only the start) carries a DONL.
func H265Parse(p []byte, donl bool, fuDONLEverywhere bool) (*H265Parsed, error) {
	if len(p) < 3 {
		return nil, fmt.Errorf("shorter than 3 bytes")
	}
	out := &H265Parsed{Hdr: ParseH265Hdr(p)}
	b := p[2:]
	switch out.Hdr.Type {
	case 48:
		out.Kind = "ap"
		first := true
		for len(b) > 0 {
			if donl {
				if first {
					if len(b) < 2 {
						return nil, fmt.Errorf("AP: DONL cut")
					}
					v := binary.BigEndian.Uint16(b)
					out.DONL = &v
					b = b[2:]
				} else {
					out.DONDs = append(out.DONDs, b[0])
					b = b[1:]
				}
			}
			if len(b) < 2 {
				return nil, fmt.Errorf("AP: size field cut")
			}
			sz := int(binary.BigEndian.Uint16(b))
			b = b[2:]
			if len(b) < sz {
				return nil, fmt.Errorf("AP: unit overruns")
			}
			out.Units = append(out.Units, b[:sz])
			b = b[sz:]
			first = false
		}
		if len(out.Units) < 2 {
			return nil, fmt.Errorf("AP with %d units", len(out.Units))
		}
	case 49:
		out.Kind = "fu"
		out.S, out.E, out.FuType = b[0]&0x80 != 0, b[0]&0x40 != 0, b[0]&0x3F
		b = b[1:]
		if donl && (out.S || fuDONLEverywhere) {
			if len(b) < 2 {
				return nil, fmt.Errorf("FU: DONL cut")
			}
			v := binary.BigEndian.Uint16(b)
			out.DONL = &v
			b = b[2:]
		}
		out.Payload = b
	case 50:
		out.Kind = "paci"
		if len(b) < 2 {
			return nil, fmt.Errorf("PACI: header cut")
		}
		w := binary.BigEndian.Uint16(b)
		out.A, out.CType, out.PHSsize = w&0x8000 != 0, uint8(w>>9&0x3F), uint8(w>>4&0x1F)
		out.F0, out.F1, out.F2, out.Y = w&8 != 0, w&4 != 0, w&2 != 0, w&1 != 0
		b = b[2:]
		if len(b) < int(out.PHSsize) {
			return nil, fmt.Errorf("PACI: PHES cut")
		}
		out.PHES = b[:out.PHSsize]
		out.Payload = b[out.PHSsize:]
	default:
		out.Kind = "single"
		if donl {
			if len(b) < 2 {
				return nil, fmt.Errorf("single: DONL cut")
			}
			v := binary.BigEndian.Uint16(b)
			out.DONL = &v
			b = b[2:]
		}
		out.Payload = b
	}
	return out, nil
}

// H265Unit is a reassembled NAL unit and where it came from.
type H265Unit struct {
	Data        []byte
	First, Last int
	Kind        string
}

// H265Depay reassembles NAL units from a payload train per RFC 7798.
func H265Depay(payloads [][]byte, donl bool, fuDONLEverywhere bool) ([]H265Unit, error) {
	var out []H265Unit
	var cur []byte
	start := -1
	var fuType uint8
	var fuHdr H265Hdr
	for i, p := range payloads {
		d, err := H265Parse(p, donl, fuDONLEverywhere)
		if err != nil {
			return out, fmt.Errorf("payload %d: %v", i, err)
		}
		if start >= 0 && d.Kind != "fu" {
			return out, fmt.Errorf("payload %d: FU train started at %d was not finished", i, start)
		}
		switch d.Kind {
		case "single":
			if len(d.Payload) == 0 {
				return out, fmt.Errorf("payload %d: single NAL unit packet without payload", i)
			}
			out = append(out, H265Unit{append(append([]byte{}, p[:2]...), d.Payload...), i, i, "single"})
		case "ap":
			for _, u := range d.Units {
				out = append(out, H265Unit{u, i, i, "ap"})
			}
		case "fu":
			if d.S && d.E {
				return out, fmt.Errorf("payload %d: FU with S and E", i)
			}
			if d.S {
				if start >= 0 {
					return out, fmt.Errorf("payload %d: FU start inside a train", i)
				}
				start, fuType, fuHdr = i, d.FuType, d.Hdr
				h := H265Hdr{F: d.Hdr.F, Type: d.FuType, Layer: d.Hdr.Layer, TID: d.Hdr.TID}
				cur = h.Bytes()
			} else {
				if start < 0 {
					return out, fmt.Errorf("payload %d: FU continuation without start", i)
				}
				if d.FuType != fuType || d.Hdr != fuHdr {
					return out, fmt.Errorf("payload %d: FU header changes inside a train", i)
				}
			}
			cur = append(cur, d.Payload...)
			if d.E {
				out = append(out, H265Unit{cur, start, i, "fu"})
				cur, start = nil, -1
			}
		default:
			return out, fmt.Errorf("payload %d: unexpected %s packet", i, d.Kind)
		}
	}
	if start >= 0 {
		return out, fmt.Errorf("FU train started at payload %d never ended (no E bit)", start)
	}
	return out, nil
}
