// Package ref holds independent executable renderings of the wire formats
// (written from the RFC / specification text, never by calling pion/rtp).
package ref

import (
	"encoding/binary"
	"errors"
	"fmt"
)

// Extension kinds.
const (
	ExtNone = iota
	ExtOneByte
	ExtTwoByte
	ExtLegacy
)

// Elem is one header-extension element.
type Elem struct {
	ID  uint8
	Val []byte
}

// Packet is a library-independent description of an RTP packet.
type Packet struct {
	Version uint8
	Marker  bool
	PT      uint8
	Seq     uint16
	TS      uint32
	SSRC    uint32
	CSRC    []uint32
	ExtKind int
	Profile uint16 // used for ExtLegacy; fixed for the RFC 8285 kinds
	Elems   []Elem // ExtLegacy: exactly one element with ID 0 (whole words)
	Payload []byte
	PadSize uint8 // 0 = P bit clear
}

// ProfileOf returns the 16-bit "defined by profile" value for the kind.
func (p *Packet) ProfileOf() uint16 {
	switch p.ExtKind {
	case ExtOneByte:
		return 0xBEDE
	case ExtTwoByte:
		return 0x1000
	}
	return p.Profile
}

// Layout holds the non-canonical freedoms the RFCs allow a sender.
type Layout struct {
	PadBefore  []int  // zero bytes before element i (len = len(Elems)), RFC 8285 kinds only
	PadAfter   int    // zero bytes after the last element, before fill
	Terminator bool   // one-byte only: id 15 byte follows
	TermNibble uint8  // its length nibble
	TermJunk   []byte // arbitrary bytes after the terminator (ignored by receivers)
	ExtraWords int    // whole extra zero words of fill
	PadFill    []byte // PadSize-1 bytes preceding the count byte (nil = zeros)
}

// Canonical reports whether the layout is the minimal one (what an encoder
// that writes elements back to back, zero fill to the word, zero RTP padding
// would produce).
func (l *Layout) Canonical() bool {
	if l == nil {
		return true
	}
	for _, n := range l.PadBefore {
		if n != 0 {
			return false
		}
	}
	if l.PadAfter != 0 || l.Terminator || l.ExtraWords != 0 {
		return false
	}
	for _, b := range l.PadFill {
		if b != 0 {
			return false
		}
	}
	return true
}

// ExtBlock renders the extension block (4-byte header + data) of p under l.
func ExtBlock(p *Packet, l *Layout) []byte {
	if p.ExtKind == ExtNone {
		return nil
	}
	var data []byte
	switch p.ExtKind {
	case ExtLegacy:
		if len(p.Elems) > 0 {
			data = append(data, p.Elems[0].Val...)
		}
	default:
		for i, e := range p.Elems {
			if l != nil && i < len(l.PadBefore) {
				data = append(data, make([]byte, l.PadBefore[i])...)
			}
			if p.ExtKind == ExtOneByte {
				data = append(data, e.ID<<4|uint8(len(e.Val)-1))
			} else {
				data = append(data, e.ID, uint8(len(e.Val)))
			}
			data = append(data, e.Val...)
		}
		if l != nil {
			data = append(data, make([]byte, l.PadAfter)...)
			if l.Terminator && p.ExtKind == ExtOneByte {
				data = append(data, 0xF0|l.TermNibble&0x0F)
				data = append(data, l.TermJunk...)
			}
		}
		for len(data)%4 != 0 {
			data = append(data, 0)
		}
		if l != nil {
			data = append(data, make([]byte, 4*l.ExtraWords)...)
		}
	}
	out := make([]byte, 4, 4+len(data))
	binary.BigEndian.PutUint16(out[0:], p.ProfileOf())
	binary.BigEndian.PutUint16(out[2:], uint16(len(data)/4))
	return append(out, data...)
}

// HeaderLen is the length of the encoded header under l.
func HeaderLen(p *Packet, l *Layout) int {
	return 12 + 4*len(p.CSRC) + len(ExtBlock(p, l))
}

// Encode renders the full packet per RFC 3550 section 5.1.
func Encode(p *Packet, l *Layout) []byte {
	out := make([]byte, 12)
	out[0] = p.Version<<6 | uint8(len(p.CSRC))
	if p.PadSize > 0 {
		out[0] |= 0x20
	}
	if p.ExtKind != ExtNone {
		out[0] |= 0x10
	}
	out[1] = p.PT & 0x7F
	if p.Marker {
		out[1] |= 0x80
	}
	binary.BigEndian.PutUint16(out[2:], p.Seq)
	binary.BigEndian.PutUint32(out[4:], p.TS)
	binary.BigEndian.PutUint32(out[8:], p.SSRC)
	for _, c := range p.CSRC {
		out = binary.BigEndian.AppendUint32(out, c)
	}
	out = append(out, ExtBlock(p, l)...)
	out = append(out, p.Payload...)
	if p.PadSize > 0 {
		fill := make([]byte, int(p.PadSize)-1)
		if l != nil && l.PadFill != nil {
			copy(fill, l.PadFill)
		}
		out = append(out, fill...)
		out = append(out, p.PadSize)
	}
	return out
}

// ErrMalformed is returned by the reference decoder.
var ErrMalformed = errors.New("malformed per RFC 3550/8285")

// Decode parses an RTP packet per RFC 3550/8285 (profile 0x1000 exactly for the
// two-byte form, as documented by the library). It is the independent decoder
// used to cross-check the reference encoder and to diagnose which side of a
// round trip broke. It returns the header length too.
func Decode(b []byte) (*Packet, int, error) {
	if len(b) < 12 {
		return nil, 0, ErrMalformed
	}
	p := &Packet{}
	p.Version = b[0] >> 6
	hasPad := b[0]&0x20 != 0
	hasExt := b[0]&0x10 != 0
	cc := int(b[0] & 0x0F)
	p.Marker = b[1]&0x80 != 0
	p.PT = b[1] & 0x7F
	p.Seq = binary.BigEndian.Uint16(b[2:])
	p.TS = binary.BigEndian.Uint32(b[4:])
	p.SSRC = binary.BigEndian.Uint32(b[8:])
	n := 12
	if len(b) < n+4*cc {
		return nil, 0, ErrMalformed
	}
	for i := 0; i < cc; i++ {
		p.CSRC = append(p.CSRC, binary.BigEndian.Uint32(b[n:]))
		n += 4
	}
	if hasExt {
		if len(b) < n+4 {
			return nil, 0, ErrMalformed
		}
		prof := binary.BigEndian.Uint16(b[n:])
		words := int(binary.BigEndian.Uint16(b[n+2:]))
		n += 4
		end := n + 4*words
		if len(b) < end {
			return nil, 0, ErrMalformed
		}
		data := b[n:end]
		switch prof {
		case 0xBEDE:
			p.ExtKind = ExtOneByte
			for i := 0; i < len(data); {
				if data[i] == 0 {
					i++
					continue
				}
				id := data[i] >> 4
				l := int(data[i]&0x0F) + 1
				i++
				if id == 15 {
					break
				}
				if i+l > len(data) {
					return nil, 0, fmt.Errorf("%w: element overruns block", ErrMalformed)
				}
				p.Elems = append(p.Elems, Elem{id, data[i : i+l]})
				i += l
			}
		case 0x1000:
			p.ExtKind = ExtTwoByte
			for i := 0; i < len(data); {
				if data[i] == 0 {
					i++
					continue
				}
				if i+2 > len(data) {
					return nil, 0, fmt.Errorf("%w: element header overruns block", ErrMalformed)
				}
				id := data[i]
				l := int(data[i+1])
				i += 2
				if i+l > len(data) {
					return nil, 0, fmt.Errorf("%w: element overruns block", ErrMalformed)
				}
				p.Elems = append(p.Elems, Elem{id, data[i : i+l]})
				i += l
			}
		default:
			p.ExtKind = ExtLegacy
			p.Profile = prof
			p.Elems = []Elem{{0, data}}
		}
		n = end
	}
	end := len(b)
	if hasPad {
		if end <= n {
			return nil, 0, ErrMalformed
		}
		p.PadSize = b[end-1]
		if p.PadSize == 0 || int(p.PadSize) > end-n {
			return nil, 0, ErrMalformed
		}
		end -= int(p.PadSize)
	}
	p.Payload = b[n:end]
	return p, n, nil
}

// Equal compares two descriptions (nil and empty slices are equal; Profile is
// compared only for the legacy kind).
func Equal(a, b *Packet) string {
	switch {
	case a.Version != b.Version:
		return "version"
	case a.Marker != b.Marker:
		return "marker"
	case a.PT != b.PT:
		return "payload type"
	case a.Seq != b.Seq:
		return "sequence number"
	case a.TS != b.TS:
		return "timestamp"
	case a.SSRC != b.SSRC:
		return "ssrc"
	case len(a.CSRC) != len(b.CSRC):
		return "csrc count"
	case a.ExtKind != b.ExtKind:
		return "extension kind"
	case a.ExtKind == ExtLegacy && a.Profile != b.Profile:
		return "extension profile"
	case len(a.Elems) != len(b.Elems):
		return "extension element count"
	case string(a.Payload) != string(b.Payload):
		return "payload"
	case a.PadSize != b.PadSize:
		return "padding size"
	}
	for i := range a.CSRC {
		if a.CSRC[i] != b.CSRC[i] {
			return "csrc value"
		}
	}
	for i := range a.Elems {
		if a.Elems[i].ID != b.Elems[i].ID {
			return "extension id/order"
		}
		if string(a.Elems[i].Val) != string(b.Elems[i].Val) {
			return "extension value"
		}
	}
	return ""
}

// HeaderOnly returns a copy without payload and padding size.
func (p *Packet) HeaderOnly() *Packet {
	q := *p
	q.Payload = nil
	q.PadSize = 0
	return &q
}
