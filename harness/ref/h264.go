package ref

import (
	"encoding/binary"
	"fmt"
)

// H264Unit describes where a NAL unit came from in a payload stream.
type H264Unit struct {
	Data        []byte
	First, Last int    // payload indices (inclusive) that carried it
	Kind        string // single | stap-a | fu-a
}

// H264Depay reassembles NAL units from RFC 6184 payloads (single NAL unit
// 1-23, STAP-A 24, FU-A 28), checking the structural rules of section 5.
func H264Depay(payloads [][]byte) ([]H264Unit, error) {
	var out []H264Unit
	var fu []byte
	fuStart := -1
	var fuInd, fuHdr byte
	for i, p := range payloads {
		if len(p) == 0 {
			return out, fmt.Errorf("payload %d is empty", i)
		}
		t := p[0] & 0x1F
		if fuStart >= 0 && t != 28 {
			return out, fmt.Errorf("payload %d: FU-A train started at %d was not finished", i, fuStart)
		}
		switch {
		case t >= 1 && t <= 23:
			out = append(out, H264Unit{Data: p, First: i, Last: i, Kind: "single"})
		case t == 24:
			off := 1
			n := 0
			for off < len(p) {
				if off+2 > len(p) {
					return out, fmt.Errorf("payload %d: STAP-A size field cut", i)
				}
				sz := int(binary.BigEndian.Uint16(p[off:]))
				off += 2
				if off+sz > len(p) {
					return out, fmt.Errorf("payload %d: STAP-A unit overruns", i)
				}
				out = append(out, H264Unit{Data: p[off : off+sz], First: i, Last: i, Kind: "stap-a"})
				off += sz
				n++
			}
			if n == 0 {
				return out, fmt.Errorf("payload %d: empty STAP-A", i)
			}
		case t == 28:
			if len(p) < 2 {
				return out, fmt.Errorf("payload %d: FU-A without FU header", i)
			}
			s, e := p[1]&0x80 != 0, p[1]&0x40 != 0
			if s && e {
				return out, fmt.Errorf("payload %d: FU-A with S and E", i)
			}
			if s {
				if fuStart >= 0 {
					return out, fmt.Errorf("payload %d: FU-A start inside a train", i)
				}
				fuStart, fuInd, fuHdr = i, p[0], p[1]
				fu = []byte{p[0]&0xE0 | p[1]&0x1F}
			} else {
				if fuStart < 0 {
					return out, fmt.Errorf("payload %d: FU-A continuation without start", i)
				}
				if p[0] != fuInd || p[1]&0x1F != fuHdr&0x1F {
					return out, fmt.Errorf("payload %d: FU-A indicator/type changes inside a train", i)
				}
			}
			fu = append(fu, p[2:]...)
			if e {
				out = append(out, H264Unit{Data: fu, First: fuStart, Last: i, Kind: "fu-a"})
				fu, fuStart = nil, -1
			}
		default:
			return out, fmt.Errorf("payload %d: packet type %d is not single/STAP-A/FU-A", i, t)
		}
	}
	if fuStart >= 0 {
		return out, fmt.Errorf("FU-A train started at %d never ended", fuStart)
	}
	return out, nil
}

// H264Frame renders units in Annex-B (4-byte start codes) or AVC (4-byte
// big-endian lengths) framing, which is what the depacketizer is documented to emit.
func H264Frame(units [][]byte, avc bool) []byte {
	var out []byte
	for _, u := range units {
		if avc {
			out = binary.BigEndian.AppendUint32(out, uint32(len(u)))
		} else {
			out = append(out, 0, 0, 0, 1)
		}
		out = append(out, u...)
	}
	return out
}
