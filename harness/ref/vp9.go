package ref

// BitWriter writes MSB-first bit fields.
type BitWriter struct {
	buf  []byte
	nbit int
}

// Put writes the low n bits of v.
func (w *BitWriter) Put(v uint64, n int) {
	for i := n - 1; i >= 0; i-- {
		if w.nbit%8 == 0 {
			w.buf = append(w.buf, 0)
		}
		if v>>uint(i)&1 != 0 {
			w.buf[len(w.buf)-1] |= 1 << uint(7-w.nbit%8)
		}
		w.nbit++
	}
}

// Flag writes one bit.
func (w *BitWriter) Flag(b bool) {
	if b {
		w.Put(1, 1)
	} else {
		w.Put(0, 1)
	}
}

// Bits is the number of bits written.
func (w *BitWriter) Bits() int { return w.nbit }

// Bytes returns the buffer (last byte zero-filled unless fill is given).
func (w *BitWriter) Bytes() []byte { return w.buf }

// VP9Header is the part of the VP9 uncompressed header (VP9 bitstream spec
// section 6.2) that an RTP payloader needs.
type VP9Header struct {
	Profile           uint8
	ReservedAfterProf bool // value written into the reserved_zero bit of profile 3 (must be ignored)
	ShowExisting      bool
	FrameToShow       uint8
	NonKey            bool
	ShowFrame         bool
	ErrorRes          bool
	TenOrTwelve       bool
	ColorSpace        uint8
	ColorRange        bool
	SubX, SubY        bool
	ReservedColor     bool // value of the reserved_zero bit of color_config in profiles 1/3
	WidthMinus1       uint16
	HeightMinus1      uint16
	// IntraOnly (non-key frames that are not shown): the frame carries intra_only = 1, a sync code, (profile > 0) a colour
	// configuration, refresh flags and a frame size of its own - it is still a non-key frame
	IntraOnly    bool
	ResetContext uint8 // reset_frame_context, written when error_resilient_mode is 0
	RefreshFlags uint8
}

// Encode writes the header; it returns the bytes and the number of header bits.
func (h *VP9Header) Encode() ([]byte, int) {
	w := &BitWriter{}
	w.Put(2, 2) // frame_marker
	w.Put(uint64(h.Profile&1), 1)
	w.Put(uint64(h.Profile>>1&1), 1)
	if h.Profile == 3 {
		w.Flag(h.ReservedAfterProf)
	}
	w.Flag(h.ShowExisting)
	if h.ShowExisting {
		w.Put(uint64(h.FrameToShow), 3)
		return w.Bytes(), w.Bits()
	}
	w.Flag(h.NonKey) // frame_type: 0 = KEY_FRAME
	w.Flag(h.ShowFrame)
	w.Flag(h.ErrorRes)
	if !h.NonKey {
		w.Put(0x49, 8)
		w.Put(0x83, 8)
		w.Put(0x42, 8)
		if h.Profile >= 2 {
			w.Flag(h.TenOrTwelve)
		}
		w.Put(uint64(h.ColorSpace), 3)
		if h.ColorSpace != 7 {
			w.Flag(h.ColorRange)
			if h.Profile == 1 || h.Profile == 3 {
				w.Flag(h.SubX)
				w.Flag(h.SubY)
				w.Flag(h.ReservedColor)
			}
		} else if h.Profile == 1 || h.Profile == 3 {
			w.Flag(h.ReservedColor)
		}
		w.Put(uint64(h.WidthMinus1), 16)
		w.Put(uint64(h.HeightMinus1), 16)
	} else if h.IntraOnly && !h.ShowFrame {
		w.Flag(true) // intra_only
		if !h.ErrorRes {
			w.Put(uint64(h.ResetContext&3), 2)
		}
		w.Put(0x49, 8)
		w.Put(0x83, 8)
		w.Put(0x42, 8)
		if h.Profile > 0 {
			if h.Profile >= 2 {
				w.Flag(h.TenOrTwelve)
			}
			w.Put(uint64(h.ColorSpace), 3)
			if h.ColorSpace != 7 {
				w.Flag(h.ColorRange)
				if h.Profile == 1 || h.Profile == 3 {
					w.Flag(h.SubX)
					w.Flag(h.SubY)
					w.Flag(h.ReservedColor)
				}
			} else if h.Profile == 1 || h.Profile == 3 {
				w.Flag(h.ReservedColor)
			}
		}
		w.Put(uint64(h.RefreshFlags), 8)
		w.Put(uint64(h.WidthMinus1), 16)
		w.Put(uint64(h.HeightMinus1), 16)
	}
	return w.Bytes(), w.Bits()
}

// Expected derived values (spec semantics).
func (h *VP9Header) BitDepth() uint8 {
	if h.Profile >= 2 {
		if h.TenOrTwelve {
			return 12
		}
		return 10
	}
	return 8
}

// ExpRange is the colour range a decoder must report.
func (h *VP9Header) ExpRange() bool {
	if h.ColorSpace == 7 {
		return true
	}
	return h.ColorRange
}

// ExpSub returns the subsampling flags a decoder must report.
func (h *VP9Header) ExpSub() (bool, bool) {
	if h.ColorSpace == 7 {
		if h.Profile == 1 || h.Profile == 3 {
			return false, false
		}
		// not a conformant stream (RGB needs profile 1 or 3); nothing is coded
		return false, false
	}
	if h.Profile == 1 || h.Profile == 3 {
		return h.SubX, h.SubY
	}
	return true, true
}

// VP9PG is one picture-group entry of the scalability structure.
type VP9PG struct {
	TID   uint8
	U     bool
	PDiff []uint8 // R = len (0-3)
	Res   uint8   // 2 reserved bits
}

// VP9Desc is an RFC 9628 section 4.2 payload descriptor.
type VP9Desc struct {
	I, P, L, F, B, E, V, Z bool
	M                      bool
	PictureID              uint16
	TID                    uint8
	U                      bool
	SID                    uint8
	D                      bool
	TL0PICIDX              uint8
	PDiff                  []uint8 // 1-3 when F && P
	NS                     uint8   // N_S
	Y, G                   bool
	SSRes                  uint8 // 3 reserved bits
	W, H                   []uint16
	PG                     []VP9PG // N_G = len
}

// Encode renders the descriptor.
func (d *VP9Desc) Encode() []byte {
	out := []byte{bit(d.I, 7) | bit(d.P, 6) | bit(d.L, 5) | bit(d.F, 4) | bit(d.B, 3) | bit(d.E, 2) | bit(d.V, 1) | bit(d.Z, 0)}
	if d.I {
		if d.M {
			out = append(out, 0x80|byte(d.PictureID>>8)&0x7F, byte(d.PictureID))
		} else {
			out = append(out, byte(d.PictureID)&0x7F)
		}
	}
	if d.L {
		out = append(out, d.TID<<5|bit(d.U, 4)|(d.SID&7)<<1|bit(d.D, 0))
		if !d.F {
			out = append(out, d.TL0PICIDX)
		}
	}
	if d.F && d.P {
		for k, pd := range d.PDiff {
			out = append(out, pd<<1|bit(k < len(d.PDiff)-1, 0))
		}
	}
	if d.V {
		out = append(out, d.NS<<5|bit(d.Y, 4)|bit(d.G, 3)|d.SSRes&7)
		if d.Y {
			for k := 0; k <= int(d.NS); k++ {
				out = append(out, byte(d.W[k]>>8), byte(d.W[k]), byte(d.H[k]>>8), byte(d.H[k]))
			}
		}
		if d.G {
			out = append(out, byte(len(d.PG)))
			for _, g := range d.PG {
				out = append(out, g.TID<<5|bit(g.U, 4)|byte(len(g.PDiff))<<2|g.Res&3)
				out = append(out, g.PDiff...)
			}
		}
	}
	return out
}

// VP9Parse is the independent descriptor parser. It returns the descriptor
// and its length in bytes, or ok=false when the descriptor is cut short.
func VP9Parse(p []byte) (*VP9Desc, int, bool) {
	if len(p) < 1 {
		return nil, 0, false
	}
	d := &VP9Desc{I: p[0]&0x80 != 0, P: p[0]&0x40 != 0, L: p[0]&0x20 != 0, F: p[0]&0x10 != 0, B: p[0]&0x08 != 0, E: p[0]&0x04 != 0, V: p[0]&0x02 != 0, Z: p[0]&0x01 != 0}
	n := 1
	need := func(k int) bool { return len(p) >= n+k }
	if d.I {
		if !need(1) {
			return nil, 0, false
		}
		if p[n]&0x80 != 0 {
			if !need(2) {
				return nil, 0, false
			}
			d.M = true
			d.PictureID = uint16(p[n]&0x7F)<<8 | uint16(p[n+1])
			n += 2
		} else {
			d.PictureID = uint16(p[n])
			n++
		}
	}
	if d.L {
		if !need(1) {
			return nil, 0, false
		}
		d.TID, d.U, d.SID, d.D = p[n]>>5, p[n]&0x10 != 0, p[n]>>1&7, p[n]&1 != 0
		n++
		if !d.F {
			if !need(1) {
				return nil, 0, false
			}
			d.TL0PICIDX = p[n]
			n++
		}
	}
	if d.F && d.P {
		for {
			if !need(1) {
				return nil, 0, false
			}
			d.PDiff = append(d.PDiff, p[n]>>1)
			more := p[n]&1 != 0
			n++
			if !more {
				break
			}
			if len(d.PDiff) == 3 {
				return nil, 0, false
			}
		}
	}
	if d.V {
		if !need(1) {
			return nil, 0, false
		}
		d.NS, d.Y, d.G, d.SSRes = p[n]>>5, p[n]&0x10 != 0, p[n]&0x08 != 0, p[n]&7
		n++
		if d.Y {
			for k := 0; k <= int(d.NS); k++ {
				if !need(4) {
					return nil, 0, false
				}
				d.W = append(d.W, uint16(p[n])<<8|uint16(p[n+1]))
				d.H = append(d.H, uint16(p[n+2])<<8|uint16(p[n+3]))
				n += 4
			}
		}
		if d.G {
			if !need(1) {
				return nil, 0, false
			}
			ng := int(p[n])
			n++
			for k := 0; k < ng; k++ {
				if !need(1) {
					return nil, 0, false
				}
				g := VP9PG{TID: p[n] >> 5, U: p[n]&0x10 != 0, Res: p[n] & 3}
				r := int(p[n] >> 2 & 3)
				n++
				if !need(r) {
					return nil, 0, false
				}
				g.PDiff = append([]uint8(nil), p[n:n+r]...)
				n += r
				d.PG = append(d.PG, g)
			}
		}
	}
	return d, n, true
}
