package ref

import "fmt"

// OBU is a library-independent AV1 open bitstream unit.
type OBU struct {
	Type      uint8 // 0-15
	HasExt    bool
	TID, SID  uint8 // 3 and 2 bits
	ExtRes    uint8 // 3 reserved bits of the extension header
	Reserved1 bool  // obu_reserved_1bit
	Payload   []byte
}

// Header renders obu_header() (AV1 spec 5.3.2 / 5.3.3).
func (o *OBU) Header(hasSize bool) []byte {
	b := (o.Type & 0x0F) << 3
	if o.HasExt {
		b |= 0x04
	}
	if hasSize {
		b |= 0x02
	}
	if o.Reserved1 {
		b |= 0x01
	}
	if o.HasExt {
		return []byte{b, o.TID<<5 | (o.SID&3)<<3 | o.ExtRes&7}
	}
	return []byte{b}
}

// Raw renders the OBU with or without obu_size.
func (o *OBU) Raw(hasSize bool) []byte {
	out := o.Header(hasSize)
	if hasSize {
		out = append(out, LEB128(uint64(len(o.Payload)))...)
	}
	return append(out, o.Payload...)
}

// AV1Agg is a parsed aggregation header + elements (AV1 RTP spec 4.4).
type AV1Agg struct {
	Z, Y, N bool
	W       int
	Elems   [][]byte
}

// AV1ParsePacket splits an RTP payload into OBU elements.
func AV1ParsePacket(p []byte) (*AV1Agg, error) {
	if len(p) < 1 {
		return nil, fmt.Errorf("empty payload")
	}
	a := &AV1Agg{Z: p[0]&0x80 != 0, Y: p[0]&0x40 != 0, W: int(p[0] >> 4 & 3), N: p[0]&0x08 != 0}
	off := 1
	for k := 1; off < len(p) || (a.W != 0 && k <= a.W); k++ {
		if a.W != 0 && k == a.W {
			a.Elems = append(a.Elems, p[off:])
			off = len(p)
			break
		}
		v, n := ReadLEB128(p[off:])
		if n == 0 {
			return nil, fmt.Errorf("element %d: length field cut", k)
		}
		off += n
		if off+int(v) > len(p) {
			return nil, fmt.Errorf("element %d: length %d overruns the payload", k, v)
		}
		a.Elems = append(a.Elems, p[off:off+int(v)])
		off += int(v)
	}
	if a.W != 0 && len(a.Elems) != a.W {
		return nil, fmt.Errorf("W=%d but %d elements", a.W, len(a.Elems))
	}
	if off != len(p) {
		return nil, fmt.Errorf("trailing bytes after W=%d elements", a.W)
	}
	return a, nil
}

// AV1Layer identifies the layer of an OBU element that starts with a header.
type AV1Layer struct {
	HasExt   bool
	TID, SID uint8
}

// AV1Reassemble checks the aggregation rules over a packet train and returns
// the reassembled OBUs (as transmitted: header without size field + payload).
// rule is the name of the first rule violated ("" if none).
func AV1Reassemble(payloads [][]byte) (obus [][]byte, rule string, detail string) {
	var cur []byte
	inFrag := false
	prevY := false
	var fragLayer AV1Layer
	for i, p := range payloads {
		a, err := AV1ParsePacket(p)
		if err != nil {
			return obus, "malformed-aggregation", fmt.Sprintf("packet %d: %v", i, err)
		}
		if len(a.Elems) == 0 {
			return obus, "packet-without-element", fmt.Sprintf("packet %d has no OBU element", i)
		}
		if a.Z != prevY {
			return obus, "z-differs-from-previous-y", fmt.Sprintf("packet %d: Z=%v, previous Y=%v", i, a.Z, prevY)
		}
		var layers []AV1Layer
		if a.Z {
			layers = append(layers, fragLayer)
		}
		for k, e := range a.Elems {
			if len(e) == 0 {
				return obus, "empty-element", fmt.Sprintf("packet %d element %d is empty", i, k)
			}
			first, last := k == 0, k == len(a.Elems)-1
			if first && a.Z {
				if !inFrag {
					return obus, "continuation-without-start", fmt.Sprintf("packet %d", i)
				}
				cur = append(cur, e...)
			} else {
				if inFrag {
					return obus, "fragment-not-continued", fmt.Sprintf("packet %d element %d starts a new OBU while a fragment is open", i, k)
				}
				// a new OBU starts here: inspect its header
				if e[0]&0x80 != 0 {
					return obus, "forbidden-bit", fmt.Sprintf("packet %d element %d", i, k)
				}
				if e[0]&0x02 != 0 {
					return obus, "size-flag-set-in-transmitted-obu", fmt.Sprintf("packet %d element %d: header %#02x", i, k, e[0])
				}
				l := AV1Layer{}
				if e[0]&0x04 != 0 {
					if len(e) >= 2 {
						l = AV1Layer{true, e[1] >> 5, e[1] >> 3 & 3}
					} else {
						// the extension byte is in the next packet: layer unknown here
						l = AV1Layer{}
					}
				}
				layers = append(layers, l)
				fragLayer = l
				cur = append([]byte(nil), e...)
			}
			if last && a.Y {
				inFrag = true
			} else {
				obus = append(obus, cur)
				cur, inFrag = nil, false
			}
		}
		var ref *AV1Layer
		for k := range layers {
			if !layers[k].HasExt {
				continue
			}
			if ref == nil {
				ref = &layers[k]
			} else if *ref != layers[k] {
				return obus, "different-layer-ids-share-a-packet", fmt.Sprintf("packet %d carries OBUs of (tid %d, sid %d) and (tid %d, sid %d)", i, ref.TID, ref.SID, layers[k].TID, layers[k].SID)
			}
		}
		prevY = a.Y
	}
	if prevY || inFrag {
		return obus, "last-packet-has-y", "the last packet announces a continuation"
	}
	return obus, "", ""
}
