// Command mutgen enumerates small syntactic mutants of one Go source file
// (operator swaps, literal +-1, statement deletion, condition negation,
// break/continue swap). It is used by tools/mutscreen.py to look for gaps in
// the monitors: a mutant that compiles, passes the library's own tests and is
// not reported by any owning check is either equivalent or a blind spot.
//
//	mutgen -file /repo/packet.go -out /tmp/mutants/packet.go.d
//
// writes NNNN.go (the whole mutated file) and index.json.
package main

import (
	"bytes"
	"encoding/json"
	"flag"
	"fmt"
	"go/ast"
	"go/parser"
	"go/printer"
	"go/token"
	"os"
	"path/filepath"
	"strconv"
	"strings"
)

type entry struct {
	ID   int    `json:"id"`
	Line int    `json:"line"`
	Func string `json:"func"`
	Desc string `json:"desc"`
}

var swaps = map[token.Token][]token.Token{
	token.LSS: {token.LEQ}, token.LEQ: {token.LSS}, token.GTR: {token.GEQ}, token.GEQ: {token.GTR},
	token.EQL: {token.NEQ}, token.NEQ: {token.EQL}, token.ADD: {token.SUB}, token.SUB: {token.ADD},
	token.LAND: {token.LOR}, token.LOR: {token.LAND}, token.SHL: {token.SHR}, token.SHR: {token.SHL},
	token.AND: {token.OR}, token.OR: {token.AND},
}

func main() {
	file := flag.String("file", "", "")
	out := flag.String("out", "", "")
	set := flag.Int("set", 1, "operator set (3 = op-assign -> assign, true <-> false, slice bounds dropped, narrowing conversions, range over xs[1:] / xs[:len-1], x[i] -> x[i+-1]): 1 = operator swaps / literals / statement deletion, 2 = len(x)+-1, copy removal (append([]T{}, x...) -> x), conditions forced true/false")
	flag.Parse()
	src, err := os.ReadFile(*file)
	if err != nil {
		panic(err)
	}
	fset := token.NewFileSet()
	f, err := parser.ParseFile(fset, *file, src, parser.ParseComments)
	if err != nil {
		panic(err)
	}
	os.MkdirAll(*out, 0o755)
	var index []entry
	seen := map[string]bool{}
	emit := func(pos token.Pos, fn, desc string) {
		var buf bytes.Buffer
		if err := (&printer.Config{Mode: printer.UseSpaces | printer.TabIndent, Tabwidth: 8}).Fprint(&buf, fset, f); err != nil {
			return
		}
		key := buf.String()
		if seen[key] {
			return
		}
		seen[key] = true
		id := len(index)
		os.WriteFile(filepath.Join(*out, fmt.Sprintf("%04d.go", id)), buf.Bytes(), 0o644)
		index = append(index, entry{id, fset.Position(pos).Line, fn, desc})
	}
	// the unmutated rendering must not count as a mutant
	{
		var buf bytes.Buffer
		(&printer.Config{Mode: printer.UseSpaces | printer.TabIndent, Tabwidth: 8}).Fprint(&buf, fset, f)
		seen[buf.String()] = true
	}

	for _, decl := range f.Decls {
		fd, ok := decl.(*ast.FuncDecl)
		if !ok || fd.Body == nil {
			continue
		}
		fn := fd.Name.Name
		if fd.Recv != nil && len(fd.Recv.List) > 0 {
			var b bytes.Buffer
			printer.Fprint(&b, fset, fd.Recv.List[0].Type)
			fn = b.String() + "." + fn
		}
		if fd.Name.Name == "String" || strings.HasPrefix(fd.Name.Name, "Verif") || strings.HasPrefix(fd.Name.Name, "verif") {
			continue
		}
		if *set == 2 {
			mutateSet2(fd, fn, emit)
			continue
		}
		if *set == 3 {
			mutateSet3(fd, fn, emit)
			continue
		}
		// statement-level mutations
		var walkBlock func(list *[]ast.Stmt)
		walkBlock = func(list *[]ast.Stmt) {
			for i := 0; i < len(*list); i++ {
				st := (*list)[i]
				switch s := st.(type) {
				case *ast.ExprStmt, *ast.IncDecStmt:
					old := (*list)[i]
					(*list)[i] = &ast.EmptyStmt{Semicolon: old.Pos(), Implicit: false}
					emit(old.Pos(), fn, "delete statement")
					(*list)[i] = old
				case *ast.AssignStmt:
					if s.Tok != token.DEFINE {
						old := (*list)[i]
						(*list)[i] = &ast.EmptyStmt{Semicolon: old.Pos()}
						emit(old.Pos(), fn, "delete assignment")
						(*list)[i] = old
					}
				case *ast.BranchStmt:
					if s.Tok == token.BREAK && s.Label == nil {
						s.Tok = token.CONTINUE
						emit(s.Pos(), fn, "break -> continue")
						s.Tok = token.BREAK
					} else if s.Tok == token.CONTINUE && s.Label == nil {
						s.Tok = token.BREAK
						emit(s.Pos(), fn, "continue -> break")
						s.Tok = token.CONTINUE
					}
				case *ast.IfStmt:
					oldc := s.Cond
					s.Cond = &ast.UnaryExpr{Op: token.NOT, X: &ast.ParenExpr{X: oldc}}
					emit(s.Pos(), fn, "negate if condition")
					s.Cond = oldc
					if s.Else == nil && s.Init == nil {
						old := (*list)[i]
						(*list)[i] = &ast.EmptyStmt{Semicolon: old.Pos()}
						emit(old.Pos(), fn, "delete if statement")
						(*list)[i] = old
					}
					if s.Else != nil {
						olde := s.Else
						s.Else = nil
						emit(olde.Pos(), fn, "delete else branch")
						s.Else = olde
					}
				}
			}
		}
		ast.Inspect(fd.Body, func(n ast.Node) bool {
			switch b := n.(type) {
			case *ast.BlockStmt:
				walkBlock(&b.List)
			case *ast.CaseClause:
				walkBlock(&b.Body)
			}
			return true
		})
		// expression-level mutations
		ast.Inspect(fd.Body, func(n ast.Node) bool {
			switch e := n.(type) {
			case *ast.BinaryExpr:
				for _, alt := range swaps[e.Op] {
					old := e.Op
					e.Op = alt
					emit(e.OpPos, fn, fmt.Sprintf("%s -> %s", old, alt))
					e.Op = old
				}
			case *ast.UnaryExpr:
				if e.Op == token.NOT {
					// handled by replacing in parent is awkward; negate by double negation removal is skipped
				}
			case *ast.BasicLit:
				if e.Kind == token.INT {
					v, err := strconv.ParseInt(e.Value, 0, 64)
					if err != nil {
						return true
					}
					old := e.Value
					render := func(x int64) string {
						if strings.HasPrefix(old, "0x") || strings.HasPrefix(old, "0X") {
							return fmt.Sprintf("0x%X", x)
						}
						if strings.HasPrefix(old, "0b") {
							return fmt.Sprintf("0b%b", x)
						}
						return strconv.FormatInt(x, 10)
					}
					e.Value = render(v + 1)
					emit(e.Pos(), fn, fmt.Sprintf("%s -> %s", old, e.Value))
					if v > 0 {
						e.Value = render(v - 1)
						emit(e.Pos(), fn, fmt.Sprintf("%s -> %s", old, e.Value))
					}
					if v > 2 && v&(v-1) != 0 { // a mask: drop its lowest set bit
						e.Value = render(v & (v - 1))
						emit(e.Pos(), fn, fmt.Sprintf("%s -> %s", old, e.Value))
					}
					e.Value = old
				}
			}
			return true
		})
	}
	b, _ := json.MarshalIndent(index, "", " ")
	os.WriteFile(filepath.Join(*out, "index.json"), b, 0o644)
	fmt.Println(len(index), "mutants of", *file)
}

// mutateSet2: len(x) -> len(x)+1 / len(x)-1; append([]T{}, x...) -> x (a copy becomes an alias); if conditions forced to true / false.
func mutateSet2(fd *ast.FuncDecl, fn string, emit func(token.Pos, string, string)) {
	// replace expressions in place through their parents
	replaceExpr := func(get func() ast.Expr, set func(ast.Expr)) {
		e := get()
		if call, ok := e.(*ast.CallExpr); ok {
			if id, ok := call.Fun.(*ast.Ident); ok && id.Name == "len" && len(call.Args) == 1 {
				for _, op := range []token.Token{token.ADD, token.SUB} {
					set(&ast.ParenExpr{X: &ast.BinaryExpr{X: call, Op: op, Y: &ast.BasicLit{Kind: token.INT, Value: "1"}}})
					emit(call.Pos(), fn, "len(x) -> len(x)"+op.String()+"1")
					set(call)
				}
			}
			if id, ok := call.Fun.(*ast.Ident); ok && id.Name == "append" && len(call.Args) == 2 && call.Ellipsis.IsValid() {
				if cl, ok := call.Args[0].(*ast.CompositeLit); ok && len(cl.Elts) == 0 {
					set(call.Args[1])
					emit(call.Pos(), fn, "append([]T{}, x...) -> x (copy becomes alias)")
					set(call)
				}
			}
		}
	}
	ast.Inspect(fd.Body, func(n ast.Node) bool {
		switch v := n.(type) {
		case *ast.BinaryExpr:
			replaceExpr(func() ast.Expr { return v.X }, func(e ast.Expr) { v.X = e })
			replaceExpr(func() ast.Expr { return v.Y }, func(e ast.Expr) { v.Y = e })
		case *ast.AssignStmt:
			for i := range v.Rhs {
				i := i
				replaceExpr(func() ast.Expr { return v.Rhs[i] }, func(e ast.Expr) { v.Rhs[i] = e })
			}
		case *ast.CallExpr:
			for i := range v.Args {
				i := i
				replaceExpr(func() ast.Expr { return v.Args[i] }, func(e ast.Expr) { v.Args[i] = e })
			}
		case *ast.IndexExpr:
			replaceExpr(func() ast.Expr { return v.Index }, func(e ast.Expr) { v.Index = e })
		case *ast.SliceExpr:
			if v.Low != nil {
				replaceExpr(func() ast.Expr { return v.Low }, func(e ast.Expr) { v.Low = e })
			}
			if v.High != nil {
				replaceExpr(func() ast.Expr { return v.High }, func(e ast.Expr) { v.High = e })
			}
		case *ast.ReturnStmt:
			for i := range v.Results {
				i := i
				replaceExpr(func() ast.Expr { return v.Results[i] }, func(e ast.Expr) { v.Results[i] = e })
			}
		case *ast.KeyValueExpr:
			replaceExpr(func() ast.Expr { return v.Value }, func(e ast.Expr) { v.Value = e })
		case *ast.IfStmt:
			old := v.Cond
			v.Cond = ast.NewIdent("true")
			emit(v.Pos(), fn, "if condition -> true")
			v.Cond = ast.NewIdent("false")
			emit(v.Pos(), fn, "if condition -> false")
			v.Cond = old
		case *ast.ForStmt:
			if v.Cond != nil {
				replaceExpr(func() ast.Expr { return v.Cond }, func(e ast.Expr) { v.Cond = e })
			}
		}
		return true
	})
}

// mutateSet3: x op= y -> x = y; true <-> false; s[a:b] -> s[a:] / s[:b], s[a:] -> s, s[a:b:c] -> s[a:b]; uintN(e) -> uintN(uintM(e)) with M < N;
// range xs -> range xs[1:] / xs[:len(xs)-1]; x[i] -> x[i+1] / x[i-1] for identifier indices.
func mutateSet3(fd *ast.FuncDecl, fn string, emit func(token.Pos, string, string)) {
	narrow := map[string]string{"uint16": "uint8", "uint32": "uint16", "uint64": "uint32", "int": "int16", "int64": "int32"}
	one := &ast.BasicLit{Kind: token.INT, Value: "1"}
	ast.Inspect(fd.Body, func(n ast.Node) bool {
		switch v := n.(type) {
		case *ast.AssignStmt:
			switch v.Tok {
			case token.ADD_ASSIGN, token.SUB_ASSIGN, token.OR_ASSIGN, token.AND_ASSIGN, token.SHL_ASSIGN, token.SHR_ASSIGN, token.XOR_ASSIGN:
				old := v.Tok
				v.Tok = token.ASSIGN
				emit(v.Pos(), fn, old.String()+" -> =")
				v.Tok = old
			}
		case *ast.Ident:
			if v.Name == "true" || v.Name == "false" {
				old := v.Name
				if old == "true" {
					v.Name = "false"
				} else {
					v.Name = "true"
				}
				emit(v.Pos(), fn, old+" -> "+v.Name)
				v.Name = old
			}
		case *ast.SliceExpr:
			if v.Slice3 && v.Max != nil {
				oldm := v.Max
				v.Max, v.Slice3 = nil, false
				emit(v.Pos(), fn, "s[a:b:c] -> s[a:b]")
				v.Max, v.Slice3 = oldm, true
				return true
			}
			if v.High != nil {
				old := v.High
				v.High = nil
				emit(v.Pos(), fn, "slice upper bound dropped")
				v.High = old
			}
			if v.Low != nil {
				old := v.Low
				v.Low = nil
				emit(v.Pos(), fn, "slice lower bound dropped")
				v.Low = old
			}
		case *ast.CallExpr:
			if id, ok := v.Fun.(*ast.Ident); ok && len(v.Args) == 1 {
				if m, ok := narrow[id.Name]; ok {
					if _, lit := v.Args[0].(*ast.BasicLit); !lit {
						old := v.Args[0]
						v.Args[0] = &ast.CallExpr{Fun: ast.NewIdent(m), Args: []ast.Expr{old}}
						emit(v.Pos(), fn, id.Name+"(e) -> "+id.Name+"("+m+"(e))")
						v.Args[0] = old
					}
				}
			}
		case *ast.RangeStmt:
			old := v.X
			if _, isCall := old.(*ast.CallExpr); !isCall {
				v.X = &ast.SliceExpr{X: old, Low: one}
				emit(v.Pos(), fn, "range xs -> range xs[1:]")
				v.X = &ast.SliceExpr{X: old, High: &ast.BinaryExpr{X: &ast.CallExpr{Fun: ast.NewIdent("len"), Args: []ast.Expr{old}}, Op: token.SUB, Y: one}}
				emit(v.Pos(), fn, "range xs -> range xs[:len(xs)-1]")
				v.X = old
			}
		case *ast.IndexExpr:
			if id, ok := v.Index.(*ast.Ident); ok {
				for _, op := range []token.Token{token.ADD, token.SUB} {
					v.Index = &ast.BinaryExpr{X: id, Op: op, Y: one}
					emit(v.Pos(), fn, "x[i] -> x[i"+op.String()+"1]")
				}
				v.Index = id
			}
		}
		return true
	})
}
