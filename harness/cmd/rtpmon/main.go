// Command rtpmon runs the runtime monitors for pion/rtp.
//
//	rtpmon run   -prop C01 -tier quick -verif /verif -work /verif/.build/C01 -race-bin path [-replay file]
//	rtpmon child ... (internal: one contained workload process)
package main

import (
	"flag"
	"fmt"
	"os"
	"strconv"

	"verifharness/fw"
	_ "verifharness/props"
)

func main() {
	if len(os.Args) < 2 {
		fmt.Println("usage: rtpmon run|child|list ...")
		os.Exit(2)
	}
	switch os.Args[1] {
	case "list":
		for _, id := range fw.IDs() {
			fmt.Println(id)
		}
	case "child":
		fs := flag.NewFlagSet("child", flag.ExitOnError)
		prop := fs.String("prop", "", "")
		tier := fs.String("tier", "quick", "")
		seed := fs.Uint64("seed", 1, "")
		out := fs.String("out", "", "")
		pin := fs.String("pin", "", "")
		os_ := fs.Int("only-stratum", -1, "")
		oi := fs.Int("only-index", -1, "")
		workers := fs.Int("workers", 0, "")
		fs.Parse(os.Args[2:])
		t := fw.Quick
		if *tier == "thorough" {
			t = fw.Thorough
		}
		err := fw.RunChild(fw.ChildOpts{Prop: *prop, Tier: t, Seed: *seed, Out: *out, Pin: *pin, OnlyStr: *os_, OnlyIdx: *oi,
			Workers: *workers, Hooks: fw.HooksEnabled, RaceMode: fw.RaceEnabled})
		if err != nil {
			fmt.Fprintln(os.Stderr, "child:", err)
			os.Exit(3)
		}
	case "run":
		fs := flag.NewFlagSet("run", flag.ExitOnError)
		prop := fs.String("prop", "", "")
		tier := fs.String("tier", "quick", "")
		verif := fs.String("verif", "/verif", "")
		work := fs.String("work", "", "")
		raceBin := fs.String("race-bin", "", "")
		replay := fs.String("replay", "", "")
		coverFunc := fs.String("cover-func", "", "")
		fs.Parse(os.Args[2:])
		t := fw.Quick
		if *tier == "thorough" || os.Getenv("VERIF_TIER") == "thorough" && *tier == "" {
			t = fw.Thorough
		}
		seed := uint64(1)
		if s := os.Getenv("VERIF_SEED"); s != "" {
			if v, err := strconv.ParseInt(s, 10, 64); err == nil {
				seed = uint64(v)
			}
		}
		self, _ := os.Executable()
		os.Exit(fw.Drive(fw.DriverOpts{Prop: *prop, Tier: t, Seed: seed, PlainBin: self, RaceBin: *raceBin, VerifDir: *verif, WorkDir: *work,
			Hooks: fw.HooksEnabled, Replay: *replay, CoverFunc: *coverFunc}))
	default:
		fmt.Println("unknown subcommand")
		os.Exit(2)
	}
}
