package props

import (
	"bytes"
	"fmt"
)

// keeper holds on to results a library call returned - the very slices, not copies - together with a snapshot taken at that
// moment. An application queues packets, collects fragments until a frame is complete, keeps decoded metadata: what a call
// returned is the caller's from then on, and no later call on the same (or any other) instance may change it.
type keeper struct {
	what  []string
	items [][]byte
	snaps [][]byte
	lists [][][]byte // outer lists as returned
	lsnap [][][]byte // slice headers of their elements at return time (same backing arrays as the elements themselves)
	lwhat []string
	later []func() string // re-renders of kept objects
	lmeta []string
	mwhat []string
}

func (k *keeper) add(what string, b []byte) {
	k.what = append(k.what, what)
	k.items = append(k.items, b)
	k.snaps = append(k.snaps, append([]byte(nil), b...))
}

// addList keeps a returned list of fragments: the list itself and every fragment.
func (k *keeper) addList(what string, l [][]byte) {
	k.lists = append(k.lists, l)
	k.lsnap = append(k.lsnap, append([][]byte(nil), l...))
	k.lwhat = append(k.lwhat, what)
	for i, f := range l {
		k.add(fmt.Sprintf("%s fragment %d", what, i), f)
	}
}

// addMeta keeps an object (through a closure that renders it) and what it rendered to when it was returned.
func (k *keeper) addMeta(what string, render func() string) {
	k.later = append(k.later, render)
	k.lmeta = append(k.lmeta, render())
	k.mwhat = append(k.mwhat, what)
}

// changed reports the first kept result that no longer is what it was when it was returned.
func (k *keeper) changed() (string, bool) {
	for i := range k.items {
		if !bytes.Equal(k.items[i], k.snaps[i]) {
			return k.what[i] + " (bytes differ)", true
		}
	}
	for i, l := range k.lists {
		if len(l) != len(k.lsnap[i]) {
			return k.lwhat[i] + " (list length)", true
		}
		for j := range l {
			if len(l[j]) != len(k.lsnap[i][j]) || (len(l[j]) > 0 && &l[j][0] != &k.lsnap[i][j][0]) {
				return fmt.Sprintf("%s (entry %d of the returned list now is another slice)", k.lwhat[i], j), true
			}
		}
	}
	for i, f := range k.later {
		if now := f(); now != k.lmeta[i] {
			return k.mwhat[i] + " (reads differently now)", true
		}
	}
	return "", false
}
