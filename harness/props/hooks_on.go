//go:build verif

package props

import (
	"time"

	"github.com/pion/rtp"
	"github.com/pion/rtp/codecs"
)

func hookSetYield(f func()) bool { rtp.VerifSetYield(f); return true }

func hookSetClock(p rtp.Packetizer, f func() time.Time) bool {
	return rtp.VerifSetPacketizerClock(p, f)
}

func hookPacketizerTimestamp(p rtp.Packetizer) (uint32, bool) {
	return rtp.VerifPacketizerTimestamp(p)
}

func hookRetainedH264Payloader(p *codecs.H264Payloader) ([][]byte, bool) {
	return p.VerifRetained(), true
}
func hookRetainedH264Packet(p *codecs.H264Packet) ([][]byte, bool) { return p.VerifRetained(), true }
func hookRetainedAV1(p *codecs.AV1Depacketizer) ([][]byte, bool)   { return p.VerifRetained(), true }

func hookSetSequencerState(s rtp.Sequencer, last uint16, roll uint64) bool {
	return rtp.VerifSetSequencerState(s, last, roll)
}
