package props

import (
	"bytes"
	"fmt"

	"github.com/pion/rtp/codecs"

	"verifharness/fw"
	"verifharness/gen"
)

func init() {
	fw.Register(&fw.Prop{
		ID:    "C16",
		Level: "exploration",
		Rule: "cases = (input length, MTU) pairs: the complete grid lengths 0-320 x MTUs 1-320 for G711 and G722 (exhaustive), plus lengths k*MTU-1, k*MTU, k*MTU+1 " +
			"for MTUs {1,2,3,159,160,161,1200,1460,65535} up to 10 000 bytes (thorough: 200 000) and seeded random (length, MTU) pairs; Opus pass-through and " +
			"OpusPacket on every length 0-320 (plus nil) and random payloads; non-trivial = the input needs at least two fragments or is a boundary case " +
			"(nil, empty, length == k*MTU); distinct = (payloader, #fragments class, remainder class, MTU class)",
		Floor:       60,
		Technique:   "runtime monitor: concatenation/fragment-size oracle over an exhaustive (length, MTU) grid; overlap monitor for the Opus pass-through",
		Assumptions: []string{"inputs are random bytes; the split logic is value-independent (checked by C08's hostile inputs as well)"},
		Strata: []fw.Stratum{
			{Name: "grid-len0-320-x-mtu1-320", N: fw.Const(320, 320), Run: c16Grid, Exhaustive: true},
			{Name: "mtu-multiples", N: fw.Const(9*34, 9*34), Run: c16Multiples},
			{Name: "more-than-65535-fragments", N: fw.Const(12, 60), Run: c16Many},
			{Name: "random-pairs", N: fw.Const(200000, 4000000), Run: c16Random},
			{Name: "opus", N: fw.Const(6000, 60000), Run: c16Opus},
		},
	})
}

type audioPayloader interface {
	Payload(mtu uint16, payload []byte) [][]byte
}

func c16Check(c *fw.Ctx, name string, p audioPayloader, mtu int, in []byte) bool {
	if in != nil && (len(in)+mtu)%3 == 0 {
		// the same bytes as a window into a larger buffer (spare capacity holding other data): only len(in) bytes are the input
		var spare func() bool
		in, spare = fw.Roomy(in, mtu+33)
		defer func() {
			if spare() {
				c.Fail("C16/"+name+"/wrote-beyond-len-of-input", "the payloader wrote into the spare capacity of the input slice", fw.W("mtu", mtu, "input_len", len(in)))
			}
		}()
	}
	pristine := append([]byte(nil), in...)
	var out [][]byte
	pv, st := fw.Guard(func() { out = p.Payload(uint16(mtu), in) })
	c.Evals(1)
	wit := func() map[string]any {
		lens := []int{}
		for _, f := range out {
			lens = append(lens, len(f))
			if len(lens) > 12 {
				break
			}
		}
		return fw.W("payloader", name, "mtu", mtu, "input_len", len(in), "input_nil", in == nil, "fragments", len(out), "first_fragment_lengths", lens, "input", fw.Trunc(fw.Hex(in), 200))
	}
	if pv != nil {
		c.Fail("C16/"+name+"/panic/"+fw.PanicFunc(st), fmt.Sprintf("Payload panicked: %v", pv), fw.W("mtu", mtu, "input_len", len(in), "stack", st))
		return false
	}
	if !bytes.Equal(in, pristine) {
		c.Fail("C16/"+name+"/input-modified", "the payloader modified its input", wit())
		return false
	}
	var cat []byte
	for k, f := range out {
		cat = append(cat, f...)
		if k < len(out)-1 && len(f) != mtu {
			c.Fail("C16/"+name+"/non-last-fragment-not-mtu", fmt.Sprintf("fragment %d of %d has %d bytes, MTU is %d", k, len(out), len(f), mtu), wit())
			return false
		}
		if len(f) > mtu {
			c.Fail("C16/"+name+"/fragment-exceeds-mtu", fmt.Sprintf("fragment %d has %d bytes, MTU is %d", k, len(f), mtu), wit())
			return false
		}
		if len(f) == 0 && len(in) > 0 {
			c.Fail("C16/"+name+"/empty-fragment", fmt.Sprintf("fragment %d is empty for a non-empty input", k), wit())
			return false
		}
	}
	if !bytes.Equal(cat, in) {
		rem := "other"
		if mtu > 0 && len(in)%mtu == 0 && len(in) > 0 {
			rem = "length-multiple-of-mtu"
		}
		c.Fail("C16/"+name+"/concatenation-differs/"+rem, fmt.Sprintf("fragments concatenate to %d bytes, input has %d", len(cat), len(in)), wit())
		return false
	}
	c.Count("splits_exact", 1)
	nf := "1"
	switch {
	case len(out) == 0:
		nf = "0"
	case len(out) == 2:
		nf = "2"
	case len(out) > 2:
		nf = "n"
	}
	rc := "rem"
	if len(in) == 0 {
		rc = "empty"
	} else if len(in)%mtu == 0 {
		rc = "exact"
	} else if len(in)%mtu == 1 {
		rc = "rem1"
	} else if len(in)%mtu == mtu-1 {
		rc = "rem-1"
	}
	if len(out) >= 2 || len(in) == 0 || len(in)%mtu == 0 {
		c.Shapef("%s|f%s|%s|mtu%s", name, nf, rc, lenClassS(mtu))
	}
	return true
}

func c16Both(c *fw.Ctx, mtu int, in []byte) bool {
	return c16Check(c, "g711", &codecs.G711Payloader{}, mtu, in) && c16Check(c, "g722", &codecs.G722Payloader{}, mtu, in)
}

func c16Grid(c *fw.Ctx, i int) {
	mtu := i + 1
	buf := gen.Value(c.R, 320) // mostly random; some columns of the grid are all one value, start like a container, end in zeros
	if mtu == 1 {
		if !c16Both(c, mtu, nil) {
			return
		}
	}
	for l := 0; l <= 320; l++ {
		if !c16Both(c, mtu, buf[:l:l]) {
			return
		}
	}
	if c.WantSample() {
		c.Sample(map[string]any{"mtu": mtu, "lengths": "0..320 (all)", "payloaders": "g711,g722"})
	}
}

var c16MTUs = []int{1, 2, 3, 159, 160, 161, 1200, 1460, 65535}

func c16Multiples(c *fw.Ctx, i int) {
	mtu := c16MTUs[i%len(c16MTUs)]
	k := i/len(c16MTUs) + 1 // 1..34
	limit := 10000
	if c.Tier == fw.Thorough {
		limit = 200000
	}
	// spread k over the allowed range of multiples
	maxK := limit / mtu
	if maxK < 1 {
		maxK = 1
	}
	kk := k
	if maxK > 34 {
		kk = 1 + (k-1)*(maxK-1)/33
	} else if k > maxK {
		kk = maxK
	}
	for _, d := range []int{-1, 0, 1} {
		l := kk*mtu + d
		if l < 0 || l > limit+1 {
			continue
		}
		if !c16Both(c, mtu, c.R.Bytes(l)) {
			return
		}
	}
	if c.WantSample() {
		c.Sample(map[string]any{"mtu": mtu, "k": kk, "lengths": []int{kk*mtu - 1, kk * mtu, kk*mtu + 1}})
	}
}

func c16Random(c *fw.Ctx, i int) {
	r := c.R
	mtu := r.Pick(1, 2, 7, 80, 160, 320, 1200, 65535, r.Range(1, 400), r.Range(1, 65535))
	l := r.Pick(0, 1, mtu-1, mtu, mtu+1, 2*mtu, 3*mtu-1, r.Range(0, 4*mtu), r.Range(0, 10000))
	if l > 10000 {
		l = 10000 - r.Intn(3)
	}
	if l < 0 {
		l = 0
	}
	c16Both(c, mtu, gen.Value(r, l))
}

func c16Opus(c *fw.Ctx, i int) {
	r := c.R
	var in []byte
	if i <= 320 {
		in = gen.Value(r, i)
	} else if i == 321 {
		in = nil
	} else {
		in = r.Bytes(r.Range(1, 2000))
	}
	if len(in) >= 3 && (i%3 == 0 || i > 321) && r.Chance(1, 2) {
		gen.WithMagic(r, in) // audio that happens to start like a container header is audio
	} else if len(in) >= 1 && r.Chance(1, 2) {
		in = gen.OpusPacket(r, len(in)) // real Opus packets: TOC, frame count, padding
	}
	mtu := uint16(r.Pick(0, 1, 2, 100, 1200, 65535, r.Intn(65536)))
	pristine := append([]byte(nil), in...)
	var out [][]byte
	p := &codecs.OpusPayloader{}
	if pv, st := fw.Guard(func() { out = p.Payload(mtu, in) }); pv != nil {
		c.Fail("C16/opus/payload-panics/"+fw.PanicFunc(st), fmt.Sprintf("OpusPayloader.Payload panicked: %v", pv), fw.W("input_len", len(in), "mtu", mtu, "stack", st))
		return
	}
	c.Evals(1)
	wit := fw.W("input", fw.Trunc(fw.Hex(in), 200), "input_len", len(in), "mtu", mtu, "fragments", len(out))
	if in != nil {
		if len(out) != 1 || !bytes.Equal(out[0], pristine) {
			c.Fail("C16/opus/not-one-equal-fragment", "OpusPayloader must return exactly one fragment equal to the input", wit)
			return
		}
		if _, ok := within(out[0], in); ok && len(in) > 0 {
			c.Fail("C16/opus/fragment-aliases-input", "the returned fragment shares memory with the input", wit)
			return
		}
		// value-level aliasing check as well: scribble the input
		for k := range in {
			in[k] ^= 0xFF
		}
		if !bytes.Equal(out[0], pristine) {
			c.Fail("C16/opus/fragment-aliases-input", "overwriting the input changed the returned fragment", wit)
			return
		}
		copy(in, pristine)
		if len(in) > 0 {
			// the same instance again: the same bytes in another buffer, and the very fragment it just returned; every result is new memory
			same := append([]byte(nil), pristine...)
			var out2, out3 [][]byte
			if pv, st := fw.Guard(func() { out2 = p.Payload(mtu, same); out3 = p.Payload(mtu, out[0]) }); pv != nil {
				c.Fail("C16/opus/payload-panics/"+fw.PanicFunc(st), fmt.Sprintf("OpusPayloader.Payload panicked on a second call: %v", pv), fw.W("input_len", len(in), "mtu", mtu, "stack", st))
				return
			}
			c.Evals(2)
			if len(out2) != 1 || len(out3) != 1 || !bytes.Equal(out2[0], pristine) || !bytes.Equal(out3[0], pristine) {
				c.Fail("C16/opus/not-one-equal-fragment", "a later call on the same OpusPayloader does not return exactly one fragment equal to its input", wit)
				return
			}
			for _, pair := range [][2][]byte{{out2[0], same}, {out3[0], out[0]}, {out2[0], out[0]}, {out3[0], out2[0]}} {
				alo, ahi := rangeOf(pair[0])
				blo, bhi := rangeOf(pair[1])
				if overlaps(alo, ahi, blo, bhi) {
					c.Fail("C16/opus/fragment-aliases-input/later-call-on-the-same-instance", "a fragment returned by a later call shares memory with that call's input or with a fragment returned earlier", wit)
					return
				}
			}
			c.Count("opus_repeat_and_feedback_calls", 1)
			if i%8 == 3 {
				// a run of short packets on the same instance (DTX / comfort noise): every one of them is forwarded
				for q := 0; q < 30; q++ {
					pl := r.Bytes(r.Pick(1, 1, 1, 2, 3))
					var o [][]byte
					if pv, st := fw.Guard(func() { o = p.Payload(mtu, pl) }); pv != nil {
						c.Fail("C16/opus/payload-panics/"+fw.PanicFunc(st), fmt.Sprintf("OpusPayloader.Payload panicked in a run of short packets: %v", pv), fw.W("call", q, "stack", st))
						return
					}
					c.Evals(1)
					if len(o) != 1 || !bytes.Equal(o[0], pl) {
						c.Fail("C16/opus/not-one-equal-fragment/in-a-run-of-short-packets", fmt.Sprintf("short packet %d of a run (%d bytes) came back as %d fragments", q, len(pl), len(o)), wit)
						return
					}
				}
				c.Count("opus_runs_of_short_packets", 1)
			}
		}
		c.Shapef("opus-payload|len%s", lenClassS(len(in)))
	} else {
		var cat []byte
		for _, f := range out {
			cat = append(cat, f...)
		}
		if len(cat) != 0 {
			c.Fail("C16/opus/nil-input-produces-bytes", "a nil input produced non-empty output", wit)
			return
		}
		c.Shape("opus-payload|nil")
	}
	c.Count("opus_passthrough_exact", 1)

	// depacketizer
	for _, pl := range [][]byte{in, nil, {}} {
		pk := &codecs.OpusPacket{}
		var got []byte
		var err error
		var head, tail1, tail2 bool
		plc := append([]byte(nil), pl...)
		if pl == nil {
			plc = nil
		}
		if pv, st := fw.Guard(func() {
			got, err = pk.Unmarshal(plc)
			head = pk.IsPartitionHead(plc)
			tail1 = pk.IsPartitionTail(false, plc)
			tail2 = pk.IsPartitionTail(true, plc)
		}); pv != nil {
			c.Fail("C16/opus/unmarshal-panics/"+fw.PanicFunc(st), fmt.Sprintf("OpusPacket panicked: %v", pv), fw.W("payload", fw.Hex(pl), "stack", st))
			return
		}
		c.Evals(4)
		w := fw.W("payload", fw.Trunc(fw.Hex(pl), 200), "payload_len", len(pl), "nil", pl == nil)
		if len(pl) == 0 {
			if err == nil {
				c.Fail("C16/opus/unmarshal-accepts-empty", "OpusPacket.Unmarshal accepted a nil/empty payload", w)
				return
			}
		} else {
			if err != nil {
				c.Fail("C16/opus/unmarshal-rejects-nonempty/len-"+lenClassS(len(pl)), "OpusPacket.Unmarshal rejected a non-empty payload: "+err.Error(), w)
				return
			}
			if !bytes.Equal(got, pl) || !bytes.Equal(pk.Payload, pl) {
				c.Fail("C16/opus/unmarshal-changes-bytes", "OpusPacket.Unmarshal did not return the payload unchanged", w)
				return
			}
		}
		if !head || !tail1 || !tail2 {
			c.Fail("C16/opus/partition-head-tail-not-true", fmt.Sprintf("IsPartitionHead=%v IsPartitionTail(false)=%v IsPartitionTail(true)=%v", head, tail1, tail2), w)
			return
		}
		c.Shapef("opus-unmarshal|len%s|nil%v", lenClassS(len(pl)), pl == nil)
	}
	if c.WantSample() {
		c.Sample(map[string]any{"opus_input_len": len(in), "nil": in == nil, "mtu": mtu})
	}
}

// c16Many: inputs that need more than 65535 fragments (16-bit fragment counters must not be involved).
func c16Many(c *fw.Ctx, i int) {
	mtu := []int{1, 1, 2, 3}[i%4]
	l := 65536*mtu + []int{-1, 0, 1, 2, mtu, 4097}[i%6]
	if i >= 12 {
		l = 65535*mtu + c.R.Range(0, 3*mtu+5)
	}
	c16Both(c, mtu, c.R.Bytes(l))
	c.Sample(map[string]any{"mtu": mtu, "length": l, "fragments_needed": (l + mtu - 1) / mtu})
}
