package props

import (
	"fmt"
	"runtime"
	"sort"
	"sync"
	"sync/atomic"
	"time"

	"github.com/anishathalye/porcupine"
	"github.com/pion/rtp"

	"verifharness/fw"
)

func init() {
	fw.Register(&fw.Prop{
		ID:    "C07",
		Level: "exploration",
		Rule: "sequential: all 65 536 fixed start values (first value, 8 steps, rollover count), 200 000-step walks over three wraps, random sequencers, walks starting (state hook) at 2^8 .. 2^64 completed rollovers, one walk of 2^32 + 2^18 values through the public API (thorough tier, and quick tier when the hooks are not compiled in); concurrent " +
			"(race-instrumented build): many short histories (2-16 goroutines x 6-12 ops, start value placed so that the wrap falls inside the history, " +
			"GOMAXPROCS varied, random Gosched at the client and at the in-method hook) checked with porcupine against a (last, rollovers) model, and long " +
			"histories (>= 15 wraps) checked with an O(n log n) unique-value checker; the race detector watches all of it; non-trivial = a concurrent history " +
			"in which at least two operations overlapped, or a sequential case crossing a wrap; distinct = distinct issue-order signatures (hash of the goroutine " +
			"id sequence in issue order) for concurrent cases, start-value blocks for sequential ones",
		Floor:     300,
		Technique: "Go race detector + client-boundary history recording checked by porcupine (linearizability vs sequential counter model) and a unique-value real-time-order checker",
		Assumptions: []string{
			"schedules are those the Go scheduler produced under the injected yields; a race-free but non-atomic change is hit probabilistically (evidence reports overlap counts)",
			"stamps come from one atomic logical clock read at the client boundary",
		},
		Strata: []fw.Stratum{
			{Name: "fixed-start-all-65536", N: fw.Const(256, 256), Run: c07Fixed, Exhaustive: true},
			{Name: "long-walks", N: fw.Const(6, 40), Run: c07Walk},
			{Name: "random-sequencers", N: fw.Const(400, 4000), Run: c07Random},
			{Name: "rollover-count-magnitudes-hook", N: fw.Const(24, 240), Run: c07Magnitudes},
			{Name: "deep-walk-2e32-values", N: fw.Const(1, 2), Run: c07Deep},
			{Name: "concurrent-short-histories", N: fw.Const(10000, 200000), Run: c07Short, Race: true, Serial: true},
			{Name: "concurrent-long-histories", N: fw.Const(3, 100), Run: c07Long, Race: true, Serial: true},
			{Name: "wrap-storms", N: fw.Const(8000, 120000), Run: c07Storm, Race: true, Serial: true},
		},
	})
}

func c07Fixed(c *fw.Ctx, i int) {
	for lo := 0; lo < 256; lo++ {
		s := uint16(i<<8 | lo)
		seq := rtp.NewFixedSequencer(s)
		other := rtp.NewFixedSequencer(^s) // an unrelated sequencer used in between: instances share nothing
		if r := seq.RollOverCount(); r != 0 {
			c.Fail("C07/sequential/initial-rollover-count", fmt.Sprintf("a new fixed sequencer reports RollOverCount %d", r), fw.W("start", s))
			return
		}
		zeros := uint64(0)
		for k := 0; k < 9; k++ {
			other.NextSequenceNumber()
			other.RollOverCount()
			v := seq.NextSequenceNumber()
			c.Evals(1)
			want := s + uint16(k)
			if v != want {
				sig := "C07/sequential/step"
				if k == 0 {
					sig = "C07/sequential/first-value-not-start"
				}
				c.Fail(sig, fmt.Sprintf("start %d: value #%d is %d, want %d", s, k, v, want), fw.W("start", s, "k", k))
				return
			}
			if v == 0 {
				zeros++
			}
			if r := seq.RollOverCount(); r != zeros {
				c.Fail("C07/sequential/rollover-count", fmt.Sprintf("start %d: after issuing %d (zeros issued so far %d) RollOverCount = %d", s, v, zeros, r), fw.W("start", s, "k", k))
				return
			}
		}
	}
	c.Shapef("start-block-%d", i)
	if i == 255 {
		c.Sample(map[string]any{"start_values": "0xFF00..0xFFFF", "steps_each": 9, "note": "crosses 65535 -> 0"})
	}
}

func c07Walk(c *fw.Ctx, i int) {
	if i == 5 {
		// 300 wraps without a single look at the count, then one look: the count is kept up to date by drawing values alone
		seq := rtp.NewFixedSequencer(1)
		n := 300*65536 + 17
		prev := uint16(0)
		for k := 0; k < n; k++ {
			v := seq.NextSequenceNumber()
			if v != prev+1 {
				c.Fail("C07/sequential/step", fmt.Sprintf("%d followed by %d", prev, v), fw.W("k", k))
				return
			}
			prev = v
		}
		c.Evals(n)
		if r := seq.RollOverCount(); r != 300 {
			c.Fail("C07/sequential/rollover-count", fmt.Sprintf("after 300 wraps without any RollOverCount call in between RollOverCount = %d", r), fw.W("values_drawn", n))
			return
		}
		if r := seq.RollOverCount(); r != 300 {
			c.Fail("C07/sequential/rollover-count", fmt.Sprintf("a second RollOverCount call returns %d", r), fw.W("values_drawn", n))
			return
		}
		c.Shapef("walk-300-wraps-unobserved")
		c.Sample(map[string]any{"start": 1, "steps": n, "wraps": 300, "count_read": "once, at the end"})
		return
	}
	starts := []uint16{0, 1, 32767, 65535, 65534}
	var s uint16
	if i < len(starts) {
		s = starts[i]
	} else {
		s = uint16(c.R.Intn(65536))
	}
	seq := rtp.NewFixedSequencer(s)
	zeros := uint64(0)
	ext := uint64(0)
	prevExt := uint64(0)
	for k := 0; k < 200000; k++ {
		v := seq.NextSequenceNumber()
		if v != s+uint16(k) {
			c.Fail("C07/sequential/step", fmt.Sprintf("start %d: value #%d is %d, want %d", s, k, v, s+uint16(k)), fw.W("start", s, "k", k))
			return
		}
		if v == 0 {
			zeros++
		}
		r := seq.RollOverCount()
		if r != zeros {
			c.Fail("C07/sequential/rollover-count", fmt.Sprintf("start %d: after %d values (%d zeros) RollOverCount = %d", s, k+1, zeros, r), fw.W("start", s, "k", k))
			return
		}
		ext = r*65536 + uint64(v)
		if k > 0 && ext != prevExt+1 {
			c.Fail("C07/sequential/extended-not-strictly-increasing", fmt.Sprintf("RollOverCount*65536+value went from %d to %d", prevExt, ext), fw.W("start", s, "k", k))
			return
		}
		prevExt = ext
	}
	c.Evals(400000)
	c.Count("wraps_crossed_sequentially", int(zeros))
	c.Shapef("walk-start-%d", s>>12)
	c.Sample(map[string]any{"start": s, "steps": 200000, "wraps": zeros})
}

// c07Magnitudes puts a sequencer (hook VerifSetSequencerState) just below a power-of-two number of completed rollovers and walks it across:
// the count is a uint64 and must keep counting exactly where a narrower or packed representation would wrap or saturate.
func c07Magnitudes(c *fw.Ctx, i int) {
	bases := []uint64{1<<8 - 1, 1<<15 - 1, 1<<16 - 2, 1<<16 - 1, 1<<24 - 1, 1<<31 - 1, 1<<32 - 2, 1<<32 - 1, 1<<47 - 1, 1<<48 - 1, 1<<53 - 1, 1<<63 - 2, 1<<63 - 1, 1<<64 - 4}
	base := bases[i%len(bases)]
	if i >= len(bases) {
		base -= uint64(c.R.Intn(3))
	}
	last := uint16(c.R.Pick(65535, 65534, 65000, 0, 1, c.R.Intn(65536)))
	seq := rtp.NewFixedSequencer(7)
	if !hookSetSequencerState(seq, last, base) {
		c.Count("skipped_no_hook(the deep walk covers 2^16 rollovers black-box)", 1)
		return
	}
	if r := seq.RollOverCount(); r != base {
		c.Fail("C07/sequential/rollover-count", fmt.Sprintf("state set to %d completed rollovers, RollOverCount = %d", base, r), fw.W("base", base, "last", last))
		return
	}
	zeros := uint64(0)
	prev := last
	for k := 0; k < 200000; k++ {
		v := seq.NextSequenceNumber()
		if v != prev+1 {
			c.Fail("C07/sequential/step", fmt.Sprintf("%d followed by %d", prev, v), fw.W("base", base, "last", last, "k", k))
			return
		}
		prev = v
		if v == 0 {
			zeros++
		}
		if v < 2 || v > 65533 || k%977 == 0 {
			if r := seq.RollOverCount(); r != base+zeros {
				c.Fail("C07/sequential/rollover-count", fmt.Sprintf("%d rollovers before, %d zeros issued since: RollOverCount = %d, want %d", base, zeros, r, base+zeros),
					fw.W("base", base, "last", last, "k", k))
				return
			}
		}
	}
	c.Evals(200000)
	c.Count("rollover_count_magnitude_walks", 1)
	c.Shapef("rollovers-2^%d", bitlen(base))
	if i < 2 {
		c.Sample(map[string]any{"completed_rollovers_at_start": base, "last": last, "steps": 200000, "wraps": zeros})
	}
}

func bitlen(x uint64) int {
	n := 0
	for ; x > 0; x >>= 1 {
		n++
	}
	return n
}

// c07Deep: one sequencer, 2^32 + 2^18 values drawn through the public API only, so that the rollover count itself passes 65536.
// It runs in the thorough tier, and in the quick tier whenever the hooks are not compiled in (a change to the sequencer's
// representation breaks the hook; the check then falls back to the untagged build and this walk takes over).
func c07Deep(c *fw.Ctx, i int) {
	if c.Tier == fw.Quick && (c.Hooks || i > 0) {
		c.Count("deep_walk_left_to_hook_stratum_and_thorough_tier", 1)
		return
	}
	start := uint16(1)
	if i > 0 {
		start = uint16(c.R.Intn(65536))
	}
	seq := rtp.NewFixedSequencer(start)
	prev := start - 1
	zeros := uint64(0)
	const total = uint64(1)<<32 + 1<<18
	for k := uint64(0); k < total; k++ {
		v := seq.NextSequenceNumber()
		if v != prev+1 {
			c.Fail("C07/sequential/step", fmt.Sprintf("value #%d: %d followed by %d", k, prev, v), fw.W("start", start, "k", k))
			return
		}
		prev = v
		if v == 0 || v == 0x8000 {
			if v == 0 {
				zeros++
			}
			if r := seq.RollOverCount(); r != zeros {
				c.Fail("C07/sequential/rollover-count", fmt.Sprintf("after %d values (%d zeros issued) RollOverCount = %d", k+1, zeros, r), fw.W("start", start, "k", k, "zeros", zeros))
				return
			}
		}
	}
	c.Evals(int(total))
	c.Count("deep_walk_wraps_crossed", int(zeros))
	c.Shapef("deep-walk-%d", i)
	c.Sample(map[string]any{"start": start, "values_drawn": total, "wraps": zeros})
}

func c07Random(c *fw.Ctx, i int) {
	for k := 0; k < 2000; k++ {
		seq := rtp.NewRandomSequencer()
		v := seq.NextSequenceNumber()
		c.Evals(1)
		if v >= 1<<15 {
			c.Fail("C07/random/first-value-not-below-2^15", fmt.Sprintf("a random sequencer started at %d", v), fw.W("value", v))
			return
		}
		if w := seq.NextSequenceNumber(); w != v+1 {
			c.Fail("C07/sequential/step", fmt.Sprintf("random sequencer: %d followed by %d", v, w), fw.W("value", v))
			return
		}
		if seq.RollOverCount() != 0 {
			c.Fail("C07/random/rollover-count", "a random sequencer reports a rollover after two values below 2^15", fw.W("value", v))
			return
		}
		c.Shapef("random-first-%d", v>>9)
	}
}

// ---- concurrent part ----

type seqOp struct {
	client    int
	next      bool
	call, ret int64
	out       uint64
}

type seqState struct {
	last uint16
	roll uint64
}

var c07Model = porcupine.Model{
	Init: func() interface{} { return seqState{} },
	Step: func(state, input, output interface{}) (bool, interface{}) {
		st := state.(seqState)
		if input.(bool) { // Next
			st.last++
			if st.last == 0 {
				st.roll++
			}
			return output.(uint64) == uint64(st.last), st
		}
		return output.(uint64) == st.roll, st
	},
	Equal: func(a, b interface{}) bool { return a.(seqState) == b.(seqState) },
	DescribeOperation: func(input, output interface{}) string {
		if input.(bool) {
			return fmt.Sprintf("Next -> %d", output.(uint64))
		}
		return fmt.Sprintf("RollOverCount -> %d", output.(uint64))
	},
}

// c07RunHistory drives one sequencer from g goroutines and records the history.
func c07RunHistory(r *fw.Rand, seq rtp.Sequencer, g, opsEach int, rollPct int, yieldPct int) []seqOp {
	var clock int64
	hist := make([][]seqOp, g)
	seeds := make([]uint64, g)
	for k := range seeds {
		seeds[k] = r.U64()
	}
	var start, done sync.WaitGroup
	start.Add(1)
	// background pollers (polling mode, rollPct < 0): goroutines that read the rollover count back to back and record nothing -
	// they only keep whatever guards the count busy while the recorded clients cross the wrap
	var stopPoll atomic.Bool
	var pollers sync.WaitGroup
	if rollPct < 0 {
		rollPct = 30
		for q := 0; q < 4; q++ {
			pollers.Add(1)
			go func() {
				defer pollers.Done()
				start.Wait()
				for !stopPoll.Load() {
					seq.RollOverCount()
				}
			}()
		}
		// (workload shaping only, see c07Storm)
		tm := time.AfterFunc(30*time.Millisecond, func() { stopPoll.Store(true) })
		defer tm.Stop()
	}
	defer func() { stopPoll.Store(true); pollers.Wait() }()
	for k := 0; k < g; k++ {
		done.Add(1)
		go func(k int) {
			defer done.Done()
			lr := fw.NewRand(seeds[k], "c07", "client", k)
			ops := make([]seqOp, 0, opsEach)
			start.Wait()
			lastWasNext := false
			for n := 0; n < opsEach; n++ {
				if lr.Intn(100) < yieldPct {
					runtime.Gosched()
				}
				op := seqOp{client: k, next: lr.Intn(100) >= rollPct}
				if lastWasNext && lr.Intn(100) < 40 {
					// read the rollover count right after drawing a value: the pair (count, value) must never go backwards
					op.next = false
				}
				lastWasNext = op.next
				op.call = atomic.AddInt64(&clock, 1)
				if op.next {
					op.out = uint64(seq.NextSequenceNumber())
				} else {
					op.out = seq.RollOverCount()
				}
				op.ret = atomic.AddInt64(&clock, 1)
				ops = append(ops, op)
			}
			hist[k] = ops
		}(k)
	}
	start.Done()
	done.Wait()
	var all []seqOp
	for _, h := range hist {
		all = append(all, h...)
	}
	return all
}

// c07FastCheck is the unique-value checker: values must be exactly the range
// start..start+T-1 (extended), real-time order must embed, and every
// RollOverCount read must lie between the zeros returned before its call and
// the zeros called before its return. It returns a description of the first
// anomaly, or "".
func c07FastCheck(ops []seqOp, start uint16) (string, map[string]any) {
	type ev struct {
		t    int64
		call bool
		op   int
	}
	evs := make([]ev, 0, 2*len(ops))
	nextCount := 0
	for i, o := range ops {
		evs = append(evs, ev{o.call, true, i}, ev{o.ret, false, i})
		if o.next {
			nextCount++
		}
	}
	sort.Slice(evs, func(i, j int) bool { return evs[i].t < evs[j].t })
	ext := make([]int64, len(ops)) // extended index (0-based offset from start) of each Next op
	calledBefore := 0              // Next ops called so far
	returnedBefore := 0            // Next ops returned so far
	lowAtCall := make([]int, len(ops))
	for _, e := range evs {
		o := &ops[e.op]
		if !o.next {
			continue
		}
		if e.call {
			lowAtCall[e.op] = returnedBefore
			calledBefore++
		} else {
			// window for the 0-based index of this op: [lowAtCall, calledBefore-1]
			lo, hi := lowAtCall[e.op], calledBefore-1
			// find idx in window with (start+idx) mod 65536 == value
			base := int64(lo)
			want := int64(uint16(o.out))
			cur := int64(uint16(uint64(start) + uint64(lo)))
			delta := (want - cur + 65536) % 65536
			idx := base + delta
			if idx > int64(hi) {
				return "value-outside-linearization-window", fw.W("client", o.client, "value", o.out, "call", o.call, "ret", o.ret,
					"window_low_index", lo, "window_high_index", hi, "window_low_value", uint16(uint64(start)+uint64(lo)), "window_high_value", uint16(uint64(start)+uint64(hi)))
			}
			ext[e.op] = idx
			returnedBefore++
		}
	}
	// permutation of 0..T-1
	seen := make([]bool, nextCount)
	for i, o := range ops {
		if !o.next {
			continue
		}
		if ext[i] < 0 || ext[i] >= int64(nextCount) {
			return "gap-in-issued-values", fw.W("value", o.out, "extended_index", ext[i], "total_next_ops", nextCount)
		}
		if seen[ext[i]] {
			return "duplicate-value", fw.W("value", o.out, "extended_index", ext[i])
		}
		seen[ext[i]] = true
	}
	// real-time order + rollover reads. Wrap points are the extended indices
	// whose value is 0: z0 + 65536*j. A read called after an op with index >= a
	// wrap point returned must count that wrap; a read cannot count a wrap whose
	// index had not even been requested when the read returned.
	z0 := int64((65536 - int64(start)) % 65536)
	wraps := func(maxIdx int64) uint64 {
		if maxIdx < z0 {
			return 0
		}
		return uint64((maxIdx-z0)/65536 + 1)
	}
	maxReturned := int64(-1)
	called := int64(0)
	floor := make([]int64, len(ops))
	for _, e := range evs {
		o := &ops[e.op]
		if e.call {
			floor[e.op] = maxReturned
			if o.next {
				called++
			}
			continue
		}
		if o.next {
			if ext[e.op] <= floor[e.op] {
				return "real-time-order-violated", fw.W("value", o.out, "extended_index", ext[e.op], "an_earlier_completed_op_had_index", floor[e.op])
			}
			if ext[e.op] > maxReturned {
				maxReturned = ext[e.op]
			}
		} else {
			lo, hi := wraps(floor[e.op]), wraps(called-1)
			if o.out < lo || o.out > hi {
				return "rollover-count-outside-bounds", fw.W("read", o.out, "wraps_completed_before_call", lo, "wraps_requested_before_return", hi, "call", o.call, "ret", o.ret)
			}
		}
	}
	return "", nil
}

func c07Overlaps(ops []seqOp) int {
	// number of ops that overlap at least one other op
	sort.Slice(ops, func(i, j int) bool { return ops[i].call < ops[j].call })
	n := 0
	maxRet := int64(-1)
	for i, o := range ops {
		ov := o.call < maxRet
		if !ov && i+1 < len(ops) && ops[i+1].call < o.ret {
			ov = true
		}
		if ov {
			n++
		}
		if o.ret > maxRet {
			maxRet = o.ret
		}
	}
	return n
}

func c07Signature(ops []seqOp) string {
	// goroutine ids in issue order of the Next values
	nx := make([]seqOp, 0, len(ops))
	for _, o := range ops {
		if o.next {
			nx = append(nx, o)
		}
	}
	sort.Slice(nx, func(i, j int) bool { return nx[i].call < nx[j].call })
	b := make([]byte, 0, len(nx))
	for _, o := range nx {
		b = append(b, byte('a'+o.client))
	}
	return string(b)
}

func c07Dump(ops []seqOp, max int) []string {
	sort.Slice(ops, func(i, j int) bool { return ops[i].call < ops[j].call })
	var out []string
	for i, o := range ops {
		if i >= max {
			out = append(out, fmt.Sprintf("… %d more", len(ops)-max))
			break
		}
		name := "RollOverCount"
		if o.next {
			name = "Next"
		}
		out = append(out, fmt.Sprintf("g%d %s [%d,%d] -> %d", o.client, name, o.call, o.ret, o.out))
	}
	return out
}

func c07Yield(r *fw.Rand, pct int) func() {
	var ctr uint64
	seed := r.U64()
	return func() {
		n := atomic.AddUint64(&ctr, 1)
		if int(mixU(seed+n)%100) < pct {
			runtime.Gosched()
		}
	}
}

func mixU(z uint64) uint64 {
	z = (z ^ (z >> 30)) * 0xBF58476D1CE4E5B9
	z = (z ^ (z >> 27)) * 0x94D049BB133111EB
	return z ^ (z >> 31)
}

func c07Short(c *fw.Ctx, i int) {
	r := c.R
	g := r.Pick(2, 2, 3, 3, 4, 5, 8, 16)
	opsEach := r.Range(6, 12)
	procs := r.Pick(1, 2, 4, 16)
	polling := i%8 == 3
	if polling {
		procs = 16 // tight pollers on few processors only wait for each other's time slices
	}
	old := runtime.GOMAXPROCS(procs)
	defer runtime.GOMAXPROCS(old)
	if polling {
		// four unrecorded goroutines poll RollOverCount without pause while the recorded clients draw values across the wrap
		g = r.Pick(2, 4, 4, 8)
		opsEach = r.Range(8, 16)
	}
	total := g * opsEach
	// place the wrap inside the history
	k := r.Range(total/6, total*7/10) // the wrap falls where all clients are running, not in the ramp-up
	start := uint16(65536 - k)
	if r.Chance(1, 10) {
		start = uint16(r.Intn(65536))
	}
	hooked := hookSetYield(c07Yield(r, r.Pick(0, 30, 60)))
	defer hookSetYield(nil)
	seq := rtp.NewFixedSequencer(start)
	random := i%8 == 7
	if random {
		// a random sequencer whose very first calls come from all clients at once
		g = r.Pick(2, 4, 8, 16, 16)
		opsEach = r.Range(1, 4)
		seq = rtp.NewRandomSequencer()
	}
	rollPct := 20
	if polling && !random {
		rollPct = -1
		c.Count("short_histories_with_polling_readers", 1)
	}
	ops := c07RunHistory(r, seq, g, opsEach, rollPct, r.Pick(0, 20, 50))
	if random {
		// the start value is whatever the smallest issued value is (no wrap can occur: the start is below 2^15, the history is short)
		min, any := uint16(0), false
		for _, o := range ops {
			if o.next && (!any || uint16(o.out) < min) {
				min, any = uint16(o.out), true
			}
		}
		if !any {
			return
		}
		start = min
		c.Count("short_histories_on_random_sequencers", 1)
	}
	c.Evals(len(ops))
	c.Count("short_histories", 1)
	if hooked {
		c.Count("histories_with_in_method_yield_hook", 1)
	}
	ov := c07Overlaps(ops)
	c.Count("ops_overlapping_another_op", ov)
	if ov >= 2 {
		c.Shape("issue-order:" + c07Signature(ops))
		c.Count("histories_with_overlap", 1)
	}
	wrapInside := false
	for _, o := range ops {
		if o.next && uint16(o.out) == 0 {
			wrapInside = true
		}
	}
	if wrapInside {
		c.Count("histories_containing_the_wrap", 1)
	}
	wit := func(extra ...any) map[string]any {
		m := fw.W("start", start, "random_sequencer", random, "goroutines", g, "ops_each", opsEach, "gomaxprocs", procs, "history", c07Dump(ops, 200))
		for q := 0; q+1 < len(extra); q += 2 {
			m[fmt.Sprint(extra[q])] = extra[q+1]
		}
		return m
	}
	if random && start >= 1<<15 {
		c.Fail("C07/random/first-value-not-below-2^15", fmt.Sprintf("the smallest value a random sequencer issued is %d", start), wit())
		return
	}
	// porcupine
	pops := make([]porcupine.Operation, len(ops))
	for k, o := range ops {
		pops[k] = porcupine.Operation{ClientId: o.client, Input: o.next, Call: o.call, Output: o.out, Return: o.ret}
	}
	model := c07Model
	model.Init = func() interface{} { return seqState{last: start - 1} }
	res, _ := porcupine.CheckOperationsVerbose(model, pops, 20*time.Second)
	switch res {
	case porcupine.Illegal:
		what, _ := c07FastCheck(ops, start)
		if what == "" {
			what = "porcupine-only"
		}
		c.Fail("C07/concurrent/not-linearizable/"+what, "no sequential order of the (last value, rollover count) model explains this recorded history", wit())
		return
	case porcupine.Unknown:
		c.HarnessBug("porcupine timed out on a short history (inconclusive)")
		return
	}
	c.Count("porcupine_ok", 1)
	if what, w := c07FastCheck(ops, start); what != "" {
		c.Fail("C07/concurrent/"+what, "the unique-value checker refutes the history: "+what, wit("detail", w))
		return
	}
	if c.WantSample() {
		c.Sample(map[string]any{"start": start, "goroutines": g, "ops_each": opsEach, "gomaxprocs": procs, "overlapping_ops": ov, "history_head": c07Dump(ops, 12)})
	}
}

// c07Storm: the cheapest possible clients around one wrap, with an oracle that needs no global clock. Each worker draws a value and
// then reads the rollover count; program order is real-time order, so a worker that was handed a value of the new cycle (the value 0
// had been handed out before) must read a count of at least 1, and a count it read can never be followed by a smaller one; the count
// never exceeds the number of wraps requested so far (1). Unrecorded pollers keep whatever guards the count busy.
func c07Storm(c *fw.Ctx, i int) {
	r := c.R
	workers := r.Pick(2, 4, 4, 8)
	readers := r.Pick(0, 2, 4, 4, 8)
	calls := r.Pick(40, 100, 150)
	if i%64 == 5 {
		// very many callers at once (more than any fixed number of queue slots an implementation might reserve)
		workers, readers, calls = r.Pick(130, 200, 300, 600), r.Pick(0, 2), r.Pick(3, 6)
	}
	ahead := r.Range(10, workers*calls*2/3)
	seq := rtp.NewFixedSequencer(uint16(65536 - ahead))
	old := runtime.GOMAXPROCS(r.Pick(2, 4, 16, 16))
	defer runtime.GOMAXPROCS(old)
	var stop atomic.Bool
	var bad atomic.Value
	var wg, rg sync.WaitGroup
	drawn := make([][]uint16, workers) // what every worker was handed, for the exactly-once check afterwards
	for q := 0; q < readers; q++ {
		rg.Add(1)
		go func() {
			defer rg.Done()
			for !stop.Load() {
				seq.RollOverCount()
			}
		}()
	}
	// the pollers only shape the workload; if an implementation makes the workers crawl while it is polled, the pollers leave after
	// 30 ms and the workers finish alone (the verdict does not depend on when that happens)
	tm := time.AfterFunc(30*time.Millisecond, func() { stop.Store(true) })
	defer tm.Stop()
	for w := 0; w < workers; w++ {
		wg.Add(1)
		w := w
		go func() {
			defer wg.Done()
			var prev uint64
			mine := make([]uint16, 0, calls)
			defer func() { drawn[w] = mine }()
			for k := 0; k < calls; k++ {
				v := seq.NextSequenceNumber()
				mine = append(mine, v)
				cnt := seq.RollOverCount()
				switch {
				case v < 1<<15 && cnt < 1:
					bad.Store(fmt.Sprintf("a client was handed the value %d (the value 0 had been handed out before) and then read RollOverCount = %d", v, cnt))
				case cnt < prev:
					bad.Store(fmt.Sprintf("one client read RollOverCount = %d and later %d", prev, cnt))
				case cnt > 1:
					bad.Store(fmt.Sprintf("RollOverCount = %d although the value 0 was handed out once", cnt))
				}
				prev = cnt
			}
		}()
	}
	wg.Wait()
	stop.Store(true)
	rg.Wait()
	c.Evals(2 * workers * calls)
	c.Count("wrap_storms", 1)
	if msg, ok := bad.Load().(string); ok {
		c.Fail("C07/concurrent/rollover-count-behind-or-ahead-of-the-values-handed-out", msg, fw.W("workers", workers, "polling_readers", readers, "calls_each", calls, "values_before_the_wrap", ahead))
		return
	}
	// exactly once: the values handed out are start, start+1, ... without gap or duplicate
	seen := make(map[uint16]int, workers*calls)
	for _, l := range drawn {
		for _, v := range l {
			seen[v]++
		}
	}
	first := uint16(65536 - ahead)
	for k := 0; k < workers*calls; k++ {
		if n := seen[first+uint16(k)]; n != 1 {
			c.Fail("C07/concurrent/values-not-handed-out-exactly-once", fmt.Sprintf("the value %d was handed out %d times (%d callers, %d values drawn from start %d)", first+uint16(k), n, workers, workers*calls, first),
				fw.W("workers", workers, "polling_readers", readers, "calls_each", calls))
			return
		}
	}
	if final := seq.RollOverCount(); final != 1 {
		c.Fail("C07/concurrent/rollover-count-behind-or-ahead-of-the-values-handed-out", fmt.Sprintf("after the storm RollOverCount = %d, the value 0 was handed out once", final), fw.W("workers", workers, "polling_readers", readers))
		return
	}
	c.Shapef("storm|w%d|r%d", workers, readers)
}

func c07Long(c *fw.Ctx, i int) {
	r := c.R
	g := r.Pick(2, 4, 8, 16)
	procs := r.Pick(2, 4, 16, 16)
	old := runtime.GOMAXPROCS(procs)
	defer runtime.GOMAXPROCS(old)
	total := 300000 // >= 4 wraps
	if c.Tier == fw.Thorough {
		total = 1000000 // >= 15 wraps
	}
	opsEach := total / g
	start := uint16(r.Intn(65536))
	hooked := hookSetYield(c07Yield(r, r.Pick(0, 2, 10)))
	defer hookSetYield(nil)
	_ = hooked
	seq := rtp.NewFixedSequencer(start)
	ops := c07RunHistory(r, seq, g, opsEach, 10, r.Pick(0, 1, 5))
	c.Evals(len(ops))
	c.Count("long_histories", 1)
	ov := c07Overlaps(ops)
	c.Count("ops_overlapping_another_op", ov)
	zeros := 0
	for _, o := range ops {
		if o.next && uint16(o.out) == 0 {
			zeros++
		}
	}
	c.Count("wraps_in_long_histories", zeros)
	if what, w := c07FastCheck(ops, start); what != "" {
		c.Fail("C07/concurrent/"+what, "the unique-value checker refutes the long history: "+what, fw.W("start", start, "goroutines", g, "gomaxprocs", procs, "ops", len(ops), "detail", w))
		return
	}
	// final rollover count is exact
	if rc := seq.RollOverCount(); rc != uint64(zeros) {
		c.Fail("C07/concurrent/final-rollover-count", fmt.Sprintf("after the history RollOverCount = %d, zeros issued = %d", rc, zeros), fw.W("start", start, "goroutines", g))
		return
	}
	c.Shapef("long|g%d|p%d|wraps%d|ov%d", g, procs, zeros, ov*10/len(ops))
	c.Sample(map[string]any{"start": start, "goroutines": g, "gomaxprocs": procs, "ops": len(ops), "wraps": zeros, "overlapping_ops": ov})
}
