package props

import (
	"bytes"
	"fmt"

	"github.com/pion/rtp"

	"verifharness/fw"
	"verifharness/gen"
	"verifharness/ref"
)

func init() {
	fw.Register(&fw.Prop{
		ID:    "C05",
		Level: "exploration",
		Rule: "cases = operation sequences (Set/Del/Get/GetIDs/Marshal-and-reparse) over the start states {zero header, preset one-byte, preset two-byte, preset " +
			"legacy (several profile values), each of those obtained from Unmarshal of a grammar image}; all sequences of length <= 2 over the class alphabet " +
			"(ids {0,1,2,14,15,16,255} x lengths {0,1,2,16,17,255,256,300}, Del of the same ids) exhaustively, then seeded random sequences of 1-12 ops; " +
			"non-trivial = at least one Set returned nil; distinct = (start state, op-class sequence prefix of length 3, final profile, final element count class)",
		Floor:     200,
		Technique: "runtime monitor: shadow ordered-map model advanced by the returned errors + wire clause (Marshal/Unmarshal/GetExtension), recover()-guarded",
		Assumptions: []string{
			"the model never predicts which calls fail; it only follows returned errors (except through the wire clause)",
			"nil and empty values are equal",
		},
		Strata: []fw.Stratum{
			{Name: "all-sequences-len<=2", N: fw.Const(c05ExhaustiveCount, c05ExhaustiveCount), Run: c05Exhaustive, Exhaustive: true},
			{Name: "all-sequences-len=3", N: fw.Const(0, c05NumStarts*c05AlphabetSize*c05AlphabetSize*c05AlphabetSize), Run: c05Exhaustive3, Exhaustive: true},
			{Name: "random-sequences", N: fw.Const(2000000, 20000000), Run: c05Random},
			{Name: "grow-and-shrink", N: fw.Const(60000, 1200000), Run: c05Grow},
		},
	})
}

var c05IDs = []uint8{0, 1, 2, 14, 15, 16, 255}
var c05Lens = []int{0, 1, 2, 16, 17, 255, 256, 300}

const c05NumStarts = 11

type c05Op struct {
	kind int // 0 set, 1 del, 2 wire, 3 get-only
	id   uint8
	val  []byte
}

func (o c05Op) String() string {
	switch o.kind {
	case 0:
		return fmt.Sprintf("Set(%d,%dB)", o.id, len(o.val))
	case 1:
		return fmt.Sprintf("Del(%d)", o.id)
	case 2:
		return "Marshal+reparse"
	}
	return "Get"
}

func (o c05Op) class() string {
	switch o.kind {
	case 0:
		ic := "mid"
		switch {
		case o.id == 0:
			ic = "0"
		case o.id <= 14:
			ic = "1-14"
		case o.id == 15:
			ic = "15"
		default:
			ic = ">15"
		}
		lc := ""
		switch n := len(o.val); {
		case n == 0:
			lc = "0"
		case n <= 16:
			lc = "1-16"
		case n <= 255:
			lc = "17-255"
		default:
			lc = ">255"
		}
		return "S" + ic + "/" + lc
	case 1:
		return "D"
	case 2:
		return "W"
	}
	return "G"
}

var c05AlphabetSize = len(c05IDs)*len(c05Lens) + len(c05IDs)

// number of sequences of length 1 and 2 over the alphabet, per start state
var c05ExhaustiveCount = c05NumStarts * (c05AlphabetSize + c05AlphabetSize*c05AlphabetSize)

func c05AlphaOp(r *fw.Rand, k int) c05Op {
	if k < len(c05IDs)*len(c05Lens) {
		return c05Op{kind: 0, id: c05IDs[k/len(c05Lens)], val: gen.Value(r, c05Lens[k%len(c05Lens)])}
	}
	return c05Op{kind: 1, id: c05IDs[k-len(c05IDs)*len(c05Lens)]}
}

type kv struct {
	id  uint8
	val []byte
}

type c05Model struct{ elems []kv }

func (m *c05Model) set(id uint8, v []byte) {
	v = append([]byte{}, v...) // the model owns its values: the library may be handed slices that share storage
	for i := range m.elems {
		if m.elems[i].id == id {
			m.elems[i].val = v
			return
		}
	}
	m.elems = append(m.elems, kv{id, v})
}

func (m *c05Model) del(id uint8) {
	for i := range m.elems {
		if m.elems[i].id == id {
			m.elems = append(m.elems[:i:i], m.elems[i+1:]...)
			return
		}
	}
}

func (m *c05Model) has(id uint8) bool {
	for _, e := range m.elems {
		if e.id == id {
			return true
		}
	}
	return false
}

// c05Start builds start state s. It returns the header, the model and a label.
func c05Start(r *fw.Rand, s int) (*rtp.Header, *c05Model, string) {
	h := &rtp.Header{Version: 2, PayloadType: 96, SequenceNumber: 7, Timestamp: 9, SSRC: 11}
	m := &c05Model{}
	switch s {
	case 0:
		return h, m, "zero"
	case 1:
		h.Extension, h.ExtensionProfile = true, 0xBEDE
		return h, m, "preset-onebyte"
	case 2:
		h.Extension, h.ExtensionProfile = true, 0x1000
		return h, m, "preset-twobyte"
	case 3:
		h.Extension, h.ExtensionProfile = true, 0x0000
		return h, m, "preset-legacy-0000"
	case 4:
		h.Extension, h.ExtensionProfile = true, uint16(r.Pick(0x1001, 0xBEDD, 0xFFFF, 0xABCD))
		return h, m, "preset-legacy-other"
	case 5:
		h.CSRC = []uint32{1, 2, 3}
		return h, m, "zero-with-csrc"
	}
	// states obtained from Unmarshal of a grammar image
	var cls int
	var label string
	switch s {
	case 6:
		cls, label = 0, "unmarshal-noext"
	case 7:
		cls, label = 2+r.Intn(3), "unmarshal-onebyte"
	case 8:
		cls, label = 6+r.Intn(2), "unmarshal-twobyte"
	case 9:
		cls, label = 9, "unmarshal-legacy"
	default:
		cls, label = 8, "unmarshal-legacy-short"
	}
	p := gen.Packet(r, gen.PacketClasses{CSRC: r.Intn(gen.NCSRCClasses), Ext: cls, Payload: 1, Pad: 0})
	l := gen.Layout(r, p, 50)
	if l != nil {
		l.Terminator = false // known finding D2 is C03's subject
	}
	wire := ref.Encode(p, l)
	hh := &rtp.Header{}
	if _, err := hh.Unmarshal(wire); err != nil {
		// cannot happen on a tree where C03 holds; fall back to the preset
		return h, m, label + "(unmarshal-failed)"
	}
	for _, e := range p.Elems {
		m.elems = append(m.elems, kv{e.ID, append([]byte{}, e.Val...)})
	}
	return hh, m, label
}

type c05Snap struct {
	ext     bool
	profile uint16
	ids     []uint8
	vals    [][]byte
	marshal []byte
	mErr    bool
	mPanic  bool
	csrc    []uint32
	fixed   [6]uint32
}

func c05Snapshot(h *rtp.Header) c05Snap {
	// every exported field counts for "a failing call leaves the header unchanged",
	// ExtensionProfile included even while Extension is false (it steers later calls)
	s := c05Snap{ext: h.Extension, profile: h.ExtensionProfile}
	s.ids = append([]uint8(nil), h.GetExtensionIDs()...)
	for _, id := range s.ids {
		s.vals = append(s.vals, append([]byte(nil), h.GetExtension(id)...))
	}
	s.csrc = append([]uint32(nil), h.CSRC...)
	s.fixed = [6]uint32{uint32(h.Version), uint32(h.PayloadType), uint32(h.SequenceNumber), h.Timestamp, h.SSRC, 0}
	if h.Marker {
		s.fixed[5] |= 1
	}
	if h.Padding {
		s.fixed[5] |= 2
	}
	pv, _ := fw.Guard(func() {
		b, err := h.Marshal()
		s.marshal, s.mErr = append([]byte(nil), b...), err != nil
	})
	s.mPanic = pv != nil
	return s
}

func c05SameSnap(a, b c05Snap) string {
	switch {
	case a.ext != b.ext:
		return "Extension flag"
	case a.profile != b.profile:
		return "ExtensionProfile"
	case !bytes.Equal(a.ids, b.ids):
		return "extension ids"
	case a.fixed != b.fixed:
		return "fixed fields"
	case len(a.csrc) != len(b.csrc):
		return "CSRC"
	case a.mPanic != b.mPanic:
		return "Marshal panics"
	case a.mErr != b.mErr:
		return "Marshal error-ness"
	case !bytes.Equal(a.marshal, b.marshal):
		return "Marshal bytes"
	}
	for i := range a.vals {
		if !bytes.Equal(a.vals[i], b.vals[i]) {
			return "extension value"
		}
	}
	for i := range a.csrc {
		if a.csrc[i] != b.csrc[i] {
			return "CSRC"
		}
	}
	return ""
}

func profClass(h *rtp.Header) string {
	if !h.Extension {
		return "none"
	}
	switch h.ExtensionProfile {
	case 0xBEDE:
		return "onebyte"
	case 0x1000:
		return "twobyte"
	}
	return "legacy"
}

// c05Run executes a sequence on start state s.
func c05Run(c *fw.Ctx, s int, ops []c05Op, autoWire bool) {
	h, m, label := c05Start(c.R, s)
	var trace []string
	wit := func(extra ...any) map[string]any {
		model := []string{}
		for _, e := range m.elems {
			model = append(model, fmt.Sprintf("%d:%dB", e.id, len(e.val)))
		}
		mm := fw.W("start", label, "ops_so_far", append([]string{}, trace...), "model", model, "profile", profClass(h))
		for k := 0; k+1 < len(extra); k += 2 {
			mm[fmt.Sprint(extra[k])] = extra[k+1]
		}
		return mm
	}
	accepted := 0
	checkModel := func(after string) bool {
		var ids []uint8
		if pv, st := fw.Guard(func() { ids = h.GetExtensionIDs() }); pv != nil {
			c.Fail("C05/accessor/GetExtensionIDs-panics/"+fw.PanicFunc(st), fmt.Sprintf("GetExtensionIDs panicked: %v", pv), wit("stack", st))
			return false
		}
		c.Count("model_comparisons", 1)
		if len(ids) != len(m.elems) {
			c.Fail("C05/model/ids-differ-after-"+after+"/"+label+"/"+profClass(h), fmt.Sprintf("GetExtensionIDs = %v, model has %d elements", ids, len(m.elems)), wit())
			return false
		}
		for k, e := range m.elems {
			if ids[k] != e.id {
				c.Fail("C05/model/ids-order-differs-after-"+after+"/"+label+"/"+profClass(h), fmt.Sprintf("GetExtensionIDs = %v, model order differs at %d", ids, k), wit())
				return false
			}
			var v []byte
			if pv, st := fw.Guard(func() { v = h.GetExtension(e.id) }); pv != nil {
				c.Fail("C05/accessor/GetExtension-panics/"+fw.PanicFunc(st), fmt.Sprintf("GetExtension panicked: %v", pv), wit("stack", st))
				return false
			}
			if !bytes.Equal(v, e.val) {
				c.Fail("C05/model/value-differs-after-"+after+"/"+label+"/"+profClass(h), fmt.Sprintf("GetExtension(%d) is not the last accepted value", e.id), wit("got", fw.Hex(v), "want", fw.Hex(e.val)))
				return false
			}
		}
		for _, id := range []uint8{0, 1, 14, 15, 16, 255, uint8(c.R.Intn(256))} {
			if !m.has(id) {
				if v := h.GetExtension(id); len(v) != 0 {
					c.Fail("C05/model/absent-id-has-value-after-"+after+"/"+label, fmt.Sprintf("GetExtension(%d) returns %d bytes for an id that is not set", id, len(v)), wit())
					return false
				}
			}
		}
		return true
	}
	wire := func() bool {
		trace = append(trace, "Marshal+reparse")
		for variant := 0; variant < 2; variant++ {
			vname := []string{"header", "packet"}[variant]
			var out []byte
			var err error
			pv, st := fw.Guard(func() {
				if variant == 0 {
					out, err = h.Marshal()
				} else {
					pk := rtp.Packet{Header: *h, Payload: []byte{0x42}}
					out, err = pk.Marshal()
				}
			})
			c.Evals(1)
			c.Count("wire_checks", 1)
			if pv != nil {
				c.Fail("C05/wire/"+vname+"/marshal-panics/"+profClass(h)+"/"+fw.PanicFunc(st)+fmt.Sprintf("/elements-%d", minI(len(m.elems), 1)),
					fmt.Sprintf("Marshal panicked after an accessor sequence: %v", pv), wit("stack", st))
				return false
			}
			if err != nil {
				legacyOdd := false
				if profClass(h) == "legacy" {
					for _, e := range m.elems {
						if e.id == 0 && len(e.val)%4 != 0 {
							legacyOdd = true
						}
					}
				}
				if legacyOdd {
					c.Count("marshal_refused_legacy_non_word(allowed)", 1)
					return true
				}
				c.Fail("C05/wire/"+vname+"/marshal-error/"+profClass(h), "Marshal refuses a header whose every extension was accepted by SetExtension: "+err.Error(), wit())
				return false
			}
			var back rtp.Header
			var bpk rtp.Packet
			pv, st = fw.Guard(func() {
				if variant == 0 {
					_, err = back.Unmarshal(out)
				} else {
					err = bpk.Unmarshal(out)
					back = bpk.Header
				}
			})
			if pv != nil {
				c.Fail("C05/wire/"+vname+"/unmarshal-panics/"+fw.PanicFunc(st), fmt.Sprintf("Unmarshal of Marshal's output panicked: %v", pv), wit("wire", fw.Hex(out), "stack", st))
				return false
			}
			if err != nil {
				c.Fail("C05/wire/"+vname+"/unmarshal-rejects/"+profClass(h)+"/"+c05Cause(h, m), "Marshal's output does not parse: "+err.Error(), wit("wire", fw.Hex(out)))
				return false
			}
			for _, e := range m.elems {
				v := back.GetExtension(e.id)
				if !bytes.Equal(v, e.val) {
					c.Fail("C05/wire/"+vname+"/value-lost/"+profClass(h)+"/"+c05Cause(h, m), fmt.Sprintf("the accepted value of id %d (%d bytes) does not survive Marshal/Unmarshal", e.id, len(e.val)),
						wit("wire", fw.Hex(out), "got", fw.Hex(v), "want", fw.Hex(e.val)))
					return false
				}
			}
			ids := back.GetExtensionIDs()
			if profClass(h) == "legacy" && len(m.elems) == 0 {
				// an RFC 3550 block without data decodes to one empty id-0 value: nothing to compare
				ids = nil
			}
			if len(ids) != len(m.elems) {
				c.Fail("C05/wire/"+vname+"/ids-differ/"+profClass(h)+"/"+c05Cause(h, m), fmt.Sprintf("after the wire GetExtensionIDs = %v, model has %d elements", ids, len(m.elems)), wit("wire", fw.Hex(out)))
				return false
			}
			for k, e := range m.elems {
				if ids[k] != e.id {
					c.Fail("C05/wire/"+vname+"/ids-order/"+profClass(h), fmt.Sprintf("after the wire GetExtensionIDs = %v, model order differs at %d", ids, k), wit("wire", fw.Hex(out)))
					return false
				}
			}
			if variant == 1 && !bytes.Equal(bpk.Payload, []byte{0x42}) {
				c.Fail("C05/wire/packet/payload-corrupted/"+profClass(h)+"/"+c05Cause(h, m), "the payload following the header does not survive", wit("wire", fw.Hex(out)))
				return false
			}
		}
		return true
	}

	if !checkModel("start") {
		return
	}
	var classes []string
	for _, op := range ops {
		if len(classes) < 3 {
			classes = append(classes, op.class())
		}
		switch op.kind {
		case 0:
			trace = append(trace, op.String())
			before := c05Snapshot(h)
			var err error
			if pv, st := fw.Guard(func() { err = h.SetExtension(op.id, op.val) }); pv != nil {
				c.Fail("C05/accessor/SetExtension-panics/"+fw.PanicFunc(st), fmt.Sprintf("SetExtension panicked: %v", pv), wit("stack", st))
				return
			}
			c.Evals(1)
			if err == nil {
				accepted++
				m.set(op.id, op.val)
			} else {
				c.Count("set_refused", 1)
				if d := c05SameSnap(before, c05Snapshot(h)); d != "" {
					c.Fail("C05/error-changes-state/SetExtension/"+sanitize(d)+"/"+label, "a SetExtension call that returned an error changed the header's "+d, wit("error", err.Error()))
					return
				}
			}
			if !checkModel("set") {
				return
			}
		case 1:
			trace = append(trace, op.String())
			before := c05Snapshot(h)
			var err error
			if pv, st := fw.Guard(func() { err = h.DelExtension(op.id) }); pv != nil {
				c.Fail("C05/accessor/DelExtension-panics/"+fw.PanicFunc(st), fmt.Sprintf("DelExtension panicked: %v", pv), wit("stack", st))
				return
			}
			c.Evals(1)
			if err == nil {
				m.del(op.id)
				// a successful delete removes that element and nothing else: the header stays under the profile it was
				// preset to / decoded with (what later SetExtension calls are judged by)
				if h.Extension != before.ext || h.ExtensionProfile != before.profile {
					c.Fail("C05/del-changes-more-than-the-element/"+label+"/"+profClass(h), fmt.Sprintf("a successful DelExtension changed Extension %v -> %v / ExtensionProfile %#04x -> %#04x", before.ext, h.Extension, before.profile, h.ExtensionProfile), wit())
					return
				}
			} else if d := c05SameSnap(before, c05Snapshot(h)); d != "" {
				c.Fail("C05/error-changes-state/DelExtension/"+sanitize(d)+"/"+label, "a DelExtension call that returned an error changed the header's "+d, wit("error", err.Error()))
				return
			}
			if !checkModel("del") {
				return
			}
		case 2:
			if !wire() {
				return
			}
			if !checkModel("marshal") {
				return
			}
		default:
			if !checkModel("get") {
				return
			}
		}
	}
	if autoWire {
		if !wire() {
			return
		}
	}
	if accepted > 0 {
		nc := "0"
		switch {
		case len(m.elems) == 1:
			nc = "1"
		case len(m.elems) > 1:
			nc = "n"
		}
		c.Shapef("%s|%v|%s|%s", label, classes, profClass(h), nc)
	}
	if c.WantSample() {
		c.Sample(map[string]any{"start": label, "ops": trace, "final_profile": profClass(h), "final_elements": len(m.elems)})
	}
}

func minI(a, b int) int {
	if a < b {
		return a
	}
	return b
}

// c05Cause names the reason a header cannot be represented on the wire, so
// that different accepted-but-unrepresentable classes get different signatures.
func c05Cause(h *rtp.Header, m *c05Model) string {
	switch profClass(h) {
	case "onebyte":
		for _, e := range m.elems {
			switch {
			case e.id == 0:
				return "id-0-accepted"
			case e.id == 15:
				return "id-15-accepted"
			case e.id > 15:
				return "id-above-15-accepted"
			case len(e.val) == 0:
				return "empty-value-accepted"
			case len(e.val) > 16:
				return "value-longer-than-16-accepted"
			}
		}
	case "twobyte":
		for _, e := range m.elems {
			switch {
			case e.id == 0:
				return "id-0-accepted"
			case len(e.val) > 255:
				return "value-longer-than-255-accepted"
			}
		}
	case "legacy":
		for _, e := range m.elems {
			if e.id != 0 {
				return "non-zero-id-accepted"
			}
		}
		if len(m.elems) == 0 {
			return "no-element"
		}
	}
	return "representable"
}

func c05Exhaustive(c *fw.Ctx, i int) {
	s := i % c05NumStarts
	i /= c05NumStarts
	var ops []c05Op
	if i < c05AlphabetSize {
		ops = []c05Op{c05AlphaOp(c.R, i)}
	} else {
		i -= c05AlphabetSize
		ops = []c05Op{c05AlphaOp(c.R, i/c05AlphabetSize), c05AlphaOp(c.R, i%c05AlphabetSize)}
	}
	c05Run(c, s, ops, true)
}

func c05Random(c *fw.Ctx, i int) {
	r := c.R
	s := r.Intn(c05NumStarts)
	n := r.Range(1, 12)
	var ops []c05Op
	var used []uint8
	var passed [][]byte
	for k := 0; k < n; k++ {
		pickID := func() uint8 {
			if len(used) > 0 && r.Bool() {
				return used[r.Intn(len(used))]
			}
			switch r.Intn(3) {
			case 0:
				return c05IDs[r.Intn(len(c05IDs))]
			case 1:
				return uint8(r.Range(1, 14))
			}
			return uint8(r.Intn(256))
		}
		switch r.Intn(10) {
		case 0, 1, 2, 3, 4:
			id := pickID()
			ln := 0
			switch r.Intn(4) {
			case 0:
				ln = c05Lens[r.Intn(len(c05Lens))]
			case 1:
				ln = r.Range(1, 16)
			case 2:
				ln = 4 * r.Range(0, 8)
			default:
				ln = r.Range(0, 300)
			}
			used = append(used, id)
			val := gen.Value(r, ln)
			if r.Chance(1, 20) {
				val = nil // a nil value is an empty value, not a request to delete
			}
			if len(passed) > 0 && r.Chance(1, 5) {
				// hand the library a slice it was given before (same storage for two ids), or a window into one,
				// or fresh bytes of exactly the length of an earlier value
				prev := passed[r.Intn(len(passed))]
				switch r.Intn(3) {
				case 0:
					val = prev
				case 1:
					if len(prev) > 1 {
						val = prev[:len(prev)-1]
					}
				default:
					val = r.Bytes(len(prev))
				}
			}
			passed = append(passed, val)
			ops = append(ops, c05Op{kind: 0, id: id, val: val})
		case 5, 6:
			ops = append(ops, c05Op{kind: 1, id: pickID()})
		case 7, 8:
			ops = append(ops, c05Op{kind: 2})
		default:
			ops = append(ops, c05Op{kind: 3})
		}
	}
	c05Run(c, s, ops, true)
}

// c05Grow: long histories in which the element list grows to many ids (its backing array is reallocated several times) and is then
// deleted down again in arbitrary order, with replacements and wire round trips in between - list capacity and fill ratio, not just
// the current content, are part of the state an implementation may act on.
func c05Grow(c *fw.Ctx, i int) {
	r := c.R
	s := r.Intn(c05NumStarts)
	var ops []c05Op
	for round := r.Range(1, 2); round > 0; round-- {
		k := r.Pick(5, 8, 9, 10, 14, 16, 17, 20, 33, r.Range(2, 40))
		var ids []uint8
		seen := map[uint8]bool{}
		wide := r.Chance(1, 3) // ids beyond 14 / longer values force the two-byte form
		for len(ids) < k {
			id := uint8(r.Range(1, 14))
			if wide || k > 14 {
				id = uint8(r.Range(1, 255))
			}
			if !seen[id] {
				seen[id] = true
				ids = append(ids, id)
			}
		}
		for _, id := range ids {
			ops = append(ops, c05Op{kind: 0, id: id, val: gen.Value(r, r.Pick(1, 1, 2, 3, 4, 16, r.Range(1, 16)))})
			if r.Chance(1, 12) {
				ops = append(ops, c05Op{kind: r.Pick(2, 3)})
			}
		}
		// delete in arbitrary order, down to a few or to none
		keep := r.Pick(0, 0, 1, 2, 4, r.Intn(k))
		if keep > k {
			keep = k
		}
		order := append([]uint8{}, ids...)
		for a := len(order) - 1; a > 0; a-- {
			b := r.Intn(a + 1)
			order[a], order[b] = order[b], order[a]
		}
		for _, id := range order[:len(order)-keep] {
			ops = append(ops, c05Op{kind: 1, id: id})
			switch r.Intn(10) {
			case 0:
				ops = append(ops, c05Op{kind: r.Pick(2, 3)})
			case 1:
				ops = append(ops, c05Op{kind: 0, id: order[len(order)-1], val: gen.Value(r, r.Range(1, 8))})
				if r.Chance(1, 4) {
					ops[len(ops)-1].val = nil
				}
			case 2:
				ops = append(ops, c05Op{kind: 1, id: id}) // deleting again fails and changes nothing
			}
		}
	}
	c.Count("grow_and_shrink_histories", 1)
	c05Run(c, s, ops, true)
}

// c05Exhaustive3: every sequence of exactly three operations over the class alphabet (thorough tier only).
func c05Exhaustive3(c *fw.Ctx, i int) {
	s := i % c05NumStarts
	i /= c05NumStarts
	a := c05AlphabetSize
	ops := []c05Op{c05AlphaOp(c.R, i/(a*a)), c05AlphaOp(c.R, i/a%a), c05AlphaOp(c.R, i%a)}
	c05Run(c, s, ops, true)
}
