package props

import (
	"bytes"
	"errors"
	"fmt"
	"io"

	"github.com/pion/rtp"

	"verifharness/fw"
	"verifharness/gen"
	"verifharness/ref"
)

func init() {
	fw.Register(&fw.Prop{
		ID:    "C04",
		Level: "exploration",
		Rule: "cases = well-formed packets/headers (C01 generator, class cross product first) x destination lengths (every length 0..size+8 when size <= 160, " +
			"otherwise the structural boundary lengths) x prior destination contents {00, FF, A5, random}; non-trivial = the packet has extension fill, " +
			"RTP padding, CSRCs or payload; distinct = packet shape key x destination-length class",
		Floor:     300,
		Technique: "runtime monitor: MarshalTo judged against Marshal() on dirty destination buffers of every length, recover()-guarded",
		Assumptions: []string{
			"Marshal() of the same value is the reference for the bytes (its own correctness is C01/C03's subject)",
			"nothing is demanded of the destination's content after a failed call",
		},
		Strata: []fw.Stratum{
			{Name: "packet-marshalto", N: fw.Const(80000, 800000), Run: c04Packet},
			{Name: "header-marshalto", N: fw.Const(60000, 600000), Run: c04Header},
		},
	})
}

func c04Lengths(size, hdr, pad int) []int {
	if size <= 160 {
		out := make([]int, 0, size+9)
		for l := 0; l <= size+8; l++ {
			out = append(out, l)
		}
		return out
	}
	cand := []int{0, 1, 11, 12, 13, hdr - 1, hdr, hdr + 1, size - pad - 1, size - pad, size - pad + 1, size - 2, size - 1, size, size + 1, size + 8}
	seen := map[int]bool{}
	var out []int
	for _, l := range cand {
		if l >= 0 && !seen[l] {
			seen[l] = true
			out = append(out, l)
		}
	}
	return out
}

func fillDst(r *fw.Rand, dst []byte, mode int) {
	switch mode {
	case 0:
		for i := range dst {
			dst[i] = 0
		}
	case 1:
		for i := range dst {
			dst[i] = 0xFF
		}
	case 2:
		for i := range dst {
			dst[i] = 0xA5
		}
	default:
		r.Fill(dst)
	}
}

// c04Stale: modes 4 and 5 fill the destination with what a buffer that is marshalled into again and again holds - the encoding of
// (nearly) this very packet: mode 4 the correct bytes with a few of them changed, mode 5 the correct bytes at 4-byte boundaries and at
// the end with everything between them stale. A "nothing to do, it is already there" shortcut must compare all of it.
func c04Stale(r *fw.Rand, dst, want []byte, mode int) {
	if mode < 4 {
		return
	}
	n := copy(dst, want)
	if n == 0 {
		return
	}
	if mode == 4 {
		for k := r.Range(1, 3); k > 0; k-- {
			dst[r.Intn(n)] ^= byte(1 << uint(r.Intn(8)))
		}
		return
	}
	for i := n / 2; i < n-1; i++ {
		if i%4 != 0 {
			dst[i] ^= 0xA5
		}
	}
}

func dstClass(l, size int) string {
	switch {
	case l == 0:
		return "0"
	case l < 12:
		return "<12"
	case l < size-1:
		return "<size-1"
	case l == size-1:
		return "size-1"
	case l == size:
		return "size"
	default:
		return ">size"
	}
}

// c04Judge judges one MarshalTo call.
func c04Judge(c *fw.Ctx, what string, p *ref.Packet, want []byte, size, hdr int, dst, before []byte, n int, err error, wit func(...any) map[string]any) bool {
	c.Count("marshalto_calls_judged", 1)
	if len(dst) < size {
		if err == nil {
			c.Fail("C04/"+what+"/short/no-error", fmt.Sprintf("destination of %d bytes < MarshalSize %d accepted (n=%d)", len(dst), size, n), wit())
			return false
		}
		if !errors.Is(err, io.ErrShortBuffer) {
			c.Fail("C04/"+what+"/short/wrong-error", fmt.Sprintf("destination of %d bytes < MarshalSize %d: error is not io.ErrShortBuffer: %v", len(dst), size, err), wit())
			return false
		}
		return true
	}
	if err != nil {
		c.Fail("C04/"+what+"/sufficient/error", fmt.Sprintf("destination of %d bytes >= MarshalSize %d refused: %v", len(dst), size, err), wit())
		return false
	}
	if n != size {
		c.Fail("C04/"+what+"/sufficient/n-differs-from-MarshalSize", fmt.Sprintf("n = %d, MarshalSize() = %d", n, size), wit())
		return false
	}
	if !bytes.Equal(dst[:n], want) {
		// classify by where the difference lies
		first, last := -1, -1
		for i := 0; i < n; i++ {
			if dst[i] != want[i] {
				if first < 0 {
					first = i
				}
				last = i
			}
		}
		region := "header"
		padStart := size - int(p.PadSize)
		switch {
		case what == "packet" && p.PadSize > 0 && first >= padStart && last < size-1:
			region = "rtp-padding-fill-not-written"
		case first >= hdr:
			region = "payload"
		case first >= 12+4*len(p.CSRC):
			region = "extension-block"
		}
		stale := true
		for i := first; i <= last; i++ {
			if dst[i] != want[i] && dst[i] != before[i] {
				stale = false
			}
		}
		sig := "C04/" + what + "/sufficient/differs-from-Marshal/" + region
		if stale {
			sig += "/keeps-previous-destination-content"
		}
		c.Fail(sig, fmt.Sprintf("dst[:n] differs from Marshal() at [%d,%d] (%s)", first, last, region), wit("got", fw.Hex(dst[:n]), "want", fw.Hex(want)))
		return false
	}
	if !bytes.Equal(dst[n:], before[n:]) {
		c.Fail("C04/"+what+"/sufficient/wrote-beyond-n", "bytes beyond n were modified", wit())
		return false
	}
	return true
}

func c04Packet(c *fw.Ctx, i int) {
	p := gen.Packet(c.R, gen.ClassesOf(c.R, i))
	if len(p.Payload) > 300 {
		p.Payload = p.Payload[:c.R.Range(161, 300)]
	}
	pk, err := gen.ToLib(p)
	if err != nil {
		c.Count("skipped_build_refused(C01)", 1)
		return
	}
	if p.ExtKind != ref.ExtNone && c.R.Chance(1, 8) {
		// the extension bit with an empty element list (all elements deleted again) is constructible too
		for _, id := range pk.GetExtensionIDs() {
			_ = pk.DelExtension(id)
		}
		p.Elems = nil
	}
	var want []byte
	var size, hdr int
	if pv, _ := fw.Guard(func() {
		size = pk.MarshalSize()
		hdr = pk.Header.MarshalSize()
		want, err = pk.Marshal()
	}); pv != nil || err != nil || len(want) != size {
		c.Count("skipped_marshal_failed(C01)", 1)
		return
	}
	if c.WantSample() {
		c.Sample(map[string]any{"packet": gen.Describe(p), "marshal_size": size})
	}
	for phase := 0; phase < 2; phase++ {
		if phase == 1 {
			// the same Packet value is marshalled again after the application changed it: nothing learnt about it by an earlier
			// MarshalTo (sizes, offsets) may be relied on
			if !c.R.Chance(1, 3) {
				break
			}
			oldSize := size
			switch c.R.Intn(5) {
			case 0:
				pk.CSRC = append(pk.CSRC, 0xC0FFEE)
				if len(pk.CSRC) > 15 {
					pk.CSRC = pk.CSRC[:15]
				}
			case 1:
				pk.Payload = append(append([]byte{}, pk.Payload...), c.R.Bytes(c.R.Range(1, 9))...)
			case 2:
				if len(pk.Payload) > 0 {
					pk.Payload = pk.Payload[:len(pk.Payload)/2]
				}
			case 3:
				pk.Padding, pk.PaddingSize = true, uint8(c.R.Range(1, 12))
			default:
				ids := pk.GetExtensionIDs()
				if len(ids) > 0 && (pk.ExtensionProfile == 0xBEDE || pk.ExtensionProfile == 0x1000) {
					for id := uint8(1); id <= 14; id++ {
						if pk.GetExtension(id) == nil {
							_ = pk.SetExtension(id, c.R.Bytes(c.R.Range(1, 9)))
							break
						}
					}
				} else if len(ids) == 0 && !pk.Extension {
					_ = pk.SetExtension(3, []byte{1, 2, 3})
				}
			}
			p = gen.FromLib(pk)
			if pv, _ := fw.Guard(func() {
				size = pk.MarshalSize()
				hdr = pk.Header.MarshalSize()
				want, err = pk.Marshal()
			}); pv != nil || err != nil || len(want) != size {
				c.Count("skipped_marshal_failed(C01)", 1)
				return
			}
			if size == oldSize {
				break
			}
			c.Count("packets_marshalled_again_after_a_change", 1)
		}
		for _, l := range c04Lengths(size, hdr, int(p.PadSize)) {
			for mode := 0; mode < 6; mode++ {
				dst := make([]byte, l)
				spare := func() bool { return false }
				if mode == 2 {
					// a window into a larger buffer: capacity beyond len is not part of the destination
					dst, spare = fw.Roomy(dst, size+16)
				}
				if l == 0 && mode == 1 {
					dst = nil
				}
				fillDst(c.R, dst, mode)
				c04Stale(c.R, dst, want, mode)
				before := append([]byte{}, dst...)
				var n int
				var e error
				wit := func(extra ...any) map[string]any {
					m := fw.W("packet", gen.Describe(p), "dst_len", l, "dst_before", fw.Trunc(fw.Hex(before), 200), "marshal_size", size)
					for k := 0; k+1 < len(extra); k += 2 {
						m[fmt.Sprint(extra[k])] = extra[k+1]
					}
					return m
				}
				pv, st := fw.Guard(func() { n, e = pk.MarshalTo(dst) })
				c.Evals(1)
				if pv != nil {
					c.Fail("C04/packet/panic/"+fw.PanicFunc(st)+"/dst-"+dstClass(l, size), fmt.Sprintf("Packet.MarshalTo panicked: %v", pv), wit("stack", st))
					return
				}
				if gen.Nontrivial(p) {
					c.Shapef("%s|dst%s|fill%d", gen.ShapeKey(p), dstClass(l, size), mode)
				}
				if spare() {
					c.Fail("C04/packet/wrote-beyond-len-into-spare-capacity/dst-"+dstClass(l, size), fmt.Sprintf("MarshalTo wrote beyond len(dst)=%d into the destination slice's spare capacity (n=%d, err=%v)", l, n, e), wit())
					return
				}
				if !c04Judge(c, "packet", p, want, size, hdr, dst, before, n, e, wit) {
					return
				}
			}
		}
	}
}

func c04Header(c *fw.Ctx, i int) {
	p := gen.Packet(c.R, gen.ClassesOf(c.R, i))
	p.Payload, p.PadSize = nil, 0
	var h rtp.Header
	if err := gen.FillHeader(&h, p); err != nil {
		c.Count("skipped_build_refused(C01)", 1)
		return
	}
	if p.ExtKind != ref.ExtNone && c.R.Chance(1, 8) {
		for _, id := range h.GetExtensionIDs() {
			_ = h.DelExtension(id)
		}
		p.Elems = nil
	}
	var want []byte
	var size int
	var err error
	if pv, _ := fw.Guard(func() {
		size = h.MarshalSize()
		want, err = h.Marshal()
	}); pv != nil || err != nil || len(want) != size {
		c.Count("skipped_marshal_failed(C01)", 1)
		return
	}
	if c.WantSample() {
		c.Sample(map[string]any{"header": gen.Describe(p), "marshal_size": size})
	}
	for _, l := range c04Lengths(size, size, 0) {
		for mode := 0; mode < 6; mode++ {
			dst := make([]byte, l)
			spare := func() bool { return false }
			if mode == 2 {
				dst, spare = fw.Roomy(dst, size+16)
			}
			fillDst(c.R, dst, mode)
			c04Stale(c.R, dst, want, mode)
			before := append([]byte{}, dst...)
			var n int
			var e error
			wit := func(extra ...any) map[string]any {
				m := fw.W("header", gen.Describe(p), "dst_len", l, "dst_before", fw.Trunc(fw.Hex(before), 200), "marshal_size", size)
				for k := 0; k+1 < len(extra); k += 2 {
					m[fmt.Sprint(extra[k])] = extra[k+1]
				}
				return m
			}
			pv, st := fw.Guard(func() { n, e = h.MarshalTo(dst) })
			c.Evals(1)
			if pv != nil {
				c.Fail("C04/header/panic/"+fw.PanicFunc(st)+"/dst-"+dstClass(l, size), fmt.Sprintf("Header.MarshalTo panicked: %v", pv), wit("stack", st))
				return
			}
			if gen.Nontrivial(p) {
				c.Shapef("%s|dst%s|fill%d", gen.ShapeKey(p), dstClass(l, size), mode)
			}
			if spare() {
				c.Fail("C04/header/wrote-beyond-len-into-spare-capacity/dst-"+dstClass(l, size), fmt.Sprintf("Header.MarshalTo wrote beyond len(dst)=%d into the destination slice's spare capacity (n=%d, err=%v)", l, n, e), wit())
				return
			}
			if !c04Judge(c, "header", p, want, size, size, dst, before, n, e, wit) {
				return
			}
		}
	}
}
