package props

import (
	"bytes"
	"fmt"

	"github.com/pion/rtp/codecs"

	"verifharness/fw"
	"verifharness/gen"
	"verifharness/ref"
)

func init() {
	fw.Register(&fw.Prop{
		ID:    "C15",
		Level: "fault_enumeration",
		Rule: "cases = (earlier frame, intact later frame) pairs for H264Packet (Annex-B and AVC; trains from an independent RFC 6184 encoder with at least one FU-A " +
			"unit) and AV1Depacketizer (trains from the AV1 payloader with at least one fragmented OBU); fault = which packets of the earlier frame are " +
			"delivered: for trains of <= 10 packets every one of the 2^n delivery subsets, for longer trains all single-loss, prefix and suffix patterns plus " +
			"300 random subsets; additionally garbage byte strings and a second lossy frame as preceding history; oracle = decode of the later frame by the " +
			"receiver with history must equal its decode by a fresh receiver; non-trivial = subsets that leave a fragmented unit unfinished (start delivered, " +
			"end lost); distinct = (codec, train length, subset mask class, first-packet kind of the later frame)",
		Floor:     100,
		Technique: "runtime monitor with fault enumeration: exhaustive loss subsets of a packet train injected before an intact frame; twin against a fresh receiver",
		Assumptions: []string{
			"the later frame is delivered completely and in order; packets are never reordered (the depacketizers document in-order input)",
			"H264 trains come from the harness's independent encoder, AV1 trains from the library payloader (its conformance is C13's subject)",
		},
		Strata: []fw.Stratum{
			{Name: "h264-loss-subsets", N: fw.Const(10000, 300000), Run: c15H264},
			{Name: "large-pending-fragments", N: fw.Const(16, 120), Run: c15Large},
			{Name: "av1-loss-subsets", N: fw.Const(10000, 300000), Run: c15AV1},
		},
	})
}

// c15H264Train builds an RFC 6184 payload train with at least one FU-A unit.
func c15H264Train(r *fw.Rand, maxPackets int) [][]byte {
	for {
		var payloads [][]byte
		n := r.Range(1, 4)
		fuAt := r.Intn(n)
		for k := 0; k < n; k++ {
			sel := r.Intn(3)
			if k == fuAt {
				sel = 2
			}
			switch sel {
			case 0:
				payloads = append(payloads, gen.H264Unit(r, r.Range(1, 23), r.Range(2, 30)))
			case 1:
				pl := []byte{byte(r.Intn(4))<<5 | 24}
				for q := r.Range(1, 3); q > 0; q-- {
					u := gen.H264Unit(r, r.Range(1, 23), r.Range(2, 12))
					pl = append(pl, byte(len(u)>>8), byte(len(u)))
					pl = append(pl, u...)
				}
				payloads = append(payloads, pl)
			default:
				u := gen.H264Unit(r, r.Range(1, 23), r.Range(4, 60))
				nf := r.Range(2, 5)
				body := u[1:]
				per := (len(body) + nf - 1) / nf
				// RFC 6184: an FU payload MAY be empty - also the one of the start fragment
				cuts := make([]int, nf+1)
				for q := 0; q <= nf; q++ {
					cuts[q] = minI(q*per, len(body))
				}
				cuts[nf] = len(body)
				if r.Chance(1, 3) {
					for q := 1; q < nf; q++ {
						cuts[q] = r.Intn(len(body) + 1)
					}
					sortInts(cuts[1:nf])
					if r.Chance(1, 2) {
						cuts[1] = 0 // empty start fragment
					}
				}
				for q := 0; q < nf; q++ {
					lo, hi := cuts[q], cuts[q+1]
					h := u[0] & 0x1F
					if q == 0 {
						h |= 0x80
					}
					if q == nf-1 {
						h |= 0x40
					}
					payloads = append(payloads, append([]byte{u[0]&0xE0 | 28, h}, body[lo:hi]...))
				}
			}
		}
		if len(payloads) <= maxPackets {
			return payloads
		}
	}
}

// c15Subsets enumerates delivery masks; trains of up to `limit` packets get all 2^n subsets
// (10 in the quick tier, 13 in the thorough tier).
func c15SubsetsLimit(r *fw.Rand, n, limit int) (masks []uint64, exhaustive bool) {
	if n <= limit {
		for m := uint64(0); m < 1<<uint(n); m++ {
			masks = append(masks, m)
		}
		return masks, true
	}
	full := uint64(1)<<uint(n) - 1
	masks = append(masks, 0, full)
	for k := 0; k < n; k++ {
		masks = append(masks, full&^(1<<uint(k)))           // single loss
		masks = append(masks, uint64(1)<<uint(k+1)-1)       // prefix delivered
		masks = append(masks, full&^(uint64(1)<<uint(k)-1)) // suffix delivered
	}
	for k := 0; k < 300; k++ {
		masks = append(masks, r.U64()&full)
	}
	return masks, false
}

type depack interface {
	Unmarshal([]byte) ([]byte, error)
}

type c15Out struct {
	out []byte
	ok  bool
}

func c15Feed(d depack, train [][]byte) (outs []c15Out, pv any, st string) {
	pv, st = fw.Guard(func() {
		// what Unmarshal returned is kept as returned and looked at when the whole train has been fed
		for _, p := range train {
			o, err := d.Unmarshal(fw.Exact(p))
			outs = append(outs, c15Out{o, err == nil})
		}
	})
	return
}

func c15Same(a, b []c15Out) int {
	for k := range a {
		if a[k].ok != b[k].ok || (a[k].ok && !bytes.Equal(a[k].out, b[k].out)) {
			return k
		}
	}
	return -1
}

// unfinished reports whether the delivered subset leaves a fragmented unit open.
func c15UnfinishedH264(train [][]byte, mask uint64) bool {
	open := false
	for k, p := range train {
		if mask&(1<<uint(k)) == 0 || p[0]&0x1F != 28 {
			continue
		}
		if p[1]&0x80 != 0 {
			open = true
		}
		if p[1]&0x40 != 0 {
			open = false
		}
	}
	return open
}

func c15Run(c *fw.Ctx, codec string, mk func() depack, frame1, frame1b, frame2 [][]byte, garbage [][]byte, unfinished func([][]byte, uint64) bool, firstKind string) {
	fresh, pv, st := c15Feed(mk(), frame2)
	if pv != nil {
		c.Fail("C15/"+codec+"/panic-on-intact-frame/"+fw.PanicFunc(st), fmt.Sprintf("the depacketizer panicked on an intact frame: %v", pv), fw.W("frame", fw.HexList(frame2), "stack", st))
		return
	}
	limit := 10
	if c.Tier == fw.Thorough {
		limit = 13
	}
	masks, exh := c15SubsetsLimit(c.R, len(frame1), limit)
	if exh {
		c.Count("trains_with_all_subsets_enumerated", 1)
	}
	for _, m := range masks {
		var hist [][]byte
		hist = append(hist, garbage...)
		for k, p := range frame1 {
			if m&(1<<uint(k)) != 0 {
				hist = append(hist, p)
			}
		}
		hist = append(hist, frame1b...)
		d := mk()
		if _, pv, st := c15Feed(d, hist); pv != nil {
			c.Fail("C15/"+codec+"/panic-in-history/"+fw.PanicFunc(st), fmt.Sprintf("the depacketizer panicked on a lossy history: %v", pv), fw.W("history", fw.HexList(truncList(hist, 64)), "stack", st))
			return
		}
		got, pv, st := c15Feed(d, frame2)
		c.Evals(len(hist) + len(frame2))
		c.Count("loss_patterns_judged", 1)
		wit := func() map[string]any {
			return fw.W("codec", codec, "earlier_frame", fw.HexList(truncList(frame1, 64)), "delivered_mask", fmt.Sprintf("%0*b (bit k = packet k delivered)", len(frame1), m),
				"garbage_prefix", fw.HexList(truncList(garbage, 64)), "second_lossy_frame", fw.HexList(truncList(frame1b, 64)), "intact_frame", fw.HexList(truncList(frame2, 64)))
		}
		if pv != nil {
			c.Fail("C15/"+codec+"/panic-after-loss/"+fw.PanicFunc(st), fmt.Sprintf("the depacketizer panicked on the intact frame after a lossy history: %v", pv), wit())
			return
		}
		unf := unfinished(frame1, m) && len(frame1b) == 0
		if unf {
			c.Count("patterns_leaving_a_fragment_unfinished", 1)
			c.Shapef("%s|n%d|unfinished|%s|g%d|b%d", codec, len(frame1), firstKind, len(garbage), len(frame1b))
		}
		if k := c15Same(fresh, got); k >= 0 {
			sig := "C15/" + codec + "/later-frame-decodes-differently"
			if unf {
				sig += "/after-unfinished-fragment"
				if bytes.HasSuffix(got[k].out, fresh[k].out[minI(len(fresh[k].out), 5):]) && len(got[k].out) > len(fresh[k].out) {
					sig += "/stale-bytes-prepended"
				}
			}
			c.Fail(sig, fmt.Sprintf("packet %d of the intact frame decodes differently from a fresh receiver", k), func() map[string]any {
				w := wit()
				w["fresh_output"] = fw.Trunc(fw.Hex(fresh[k].out), 300)
				w["output_after_history"] = fw.Trunc(fw.Hex(got[k].out), 300)
				w["fresh_ok"], w["after_history_ok"] = fresh[k].ok, got[k].ok
				return w
			}())
			return
		}
	}
}

func c15H264(c *fw.Ctx, i int) {
	r := c.R
	avc := r.Bool()
	frame1 := c15H264Train(r, r.Pick(10, 10, 10, 14))
	frame2 := c15H264Train(r, 12)
	if r.Chance(1, 5) {
		// the same frame again (a retransmission, a repeated parameter-set packet): byte-identical starts must not be mistaken for
		// duplicates of what is pending; in half of the cases the continuation fragments differ from the first transmission
		frame2 = nil
		differ := r.Bool()
		for _, p := range frame1 {
			q := append([]byte(nil), p...)
			if differ && len(q) > 2 && q[0]&0x1F == 28 && q[1]&0x80 == 0 {
				for k := 2; k < len(q); k++ {
					q[k] ^= 0x3C
				}
			}
			frame2 = append(frame2, q)
		}
		c.Count("later_frame_repeats_the_earlier_frame", 1)
	}
	var garbage, frame1b [][]byte
	switch r.Intn(5) {
	case 0:
		for k := r.Range(1, 4); k > 0; k-- {
			g := r.Bytes(r.Range(0, 20))
			if len(g) > 0 && r.Bool() {
				g[0] = g[0]&0xE0 | 28 // looks like FU-A
			}
			garbage = append(garbage, g)
		}
	case 1:
		t := c15H264Train(r, 8)
		for _, p := range t {
			if r.Bool() {
				frame1b = append(frame1b, p)
			}
		}
	}
	firstKind := "single"
	switch frame2[0][0] & 0x1F {
	case 24:
		firstKind = "stap-a"
	case 28:
		firstKind = "fu-a"
	}
	if c.WantSample() {
		c.Sample(map[string]any{"codec": "h264", "avc": avc, "earlier_frame_packets": len(frame1), "later_frame_packets": len(frame2), "later_frame_starts_with": firstKind})
	}
	// self-check: the intact frame is well-formed per the reference reassembler
	if _, err := ref.H264Depay(frame2); err != nil {
		c.HarnessBug("independent H264 encoder produced a malformed train: " + err.Error())
		return
	}
	name := "h264-annexb"
	if avc {
		name = "h264-avc"
	}
	c15Run(c, name, func() depack { return &codecs.H264Packet{IsAVC: avc} }, frame1, frame1b, frame2, garbage, c15UnfinishedH264, firstKind)
}

func c15AV1Train(r *fw.Rand, maxPackets int) ([][]byte, bool) {
	for try := 0; try < 50; try++ {
		mtu := r.Pick(4, 5, 6, 8, 10, 16, 24, 40, r.Range(4, 60))
		n := r.Range(1, 4)
		var in []byte
		for k := 0; k < n; k++ {
			o := ref.OBU{Type: uint8(r.Pick(1, 3, 4, 5, 6, 6, 6, 7, 15)), Payload: r.Bytes(r.Pick(0, 1, mtu-2, mtu, mtu+3, 2*mtu, r.Range(0, 3*mtu)))}
			if r.Chance(1, 4) {
				o.HasExt, o.TID, o.SID = true, uint8(r.Intn(2)), 0
			}
			in = append(in, o.Raw(true)...)
		}
		p := &codecs.AV1Payloader{}
		out := p.Payload(uint16(mtu), in)
		if len(out) == 0 || len(out) > maxPackets {
			continue
		}
		frag := false
		for _, pl := range out {
			if pl[0]&0x40 != 0 {
				frag = true
			}
		}
		if !frag && try < 40 {
			continue
		}
		return out, true
	}
	return nil, false
}

func c15UnfinishedAV1(train [][]byte, mask uint64) bool {
	// the last delivered packet announces a continuation (Y) that never arrives
	last := -1
	for k := range train {
		if mask&(1<<uint(k)) != 0 {
			last = k
		}
	}
	return last >= 0 && train[last][0]&0x40 != 0 && (last == len(train)-1 || mask&(1<<uint(last+1)) == 0)
}

func c15AV1(c *fw.Ctx, i int) {
	r := c.R
	frame1, ok1 := c15AV1Train(r, r.Pick(10, 10, 10, 14))
	frame2, ok2 := c15AV1Train(r, 12)
	if !ok1 || !ok2 {
		c.Count("av1_train_generation_failed", 1)
		return
	}
	if frame2[0][0]&0x80 != 0 {
		c.HarnessBug("an intact AV1 frame starts with Z=1")
		return
	}
	var garbage, frame1b [][]byte
	switch r.Intn(5) {
	case 0:
		for k := r.Range(1, 4); k > 0; k-- {
			g := r.Bytes(r.Range(0, 20))
			if len(g) > 1 && r.Bool() {
				g[0] = byte(r.Pick(0x40, 0x50, 0xC0, 0x90, 0x60)) // plausible aggregation headers
			}
			if r.Chance(1, 3) {
				// foreign but well-formed history (another sender keeps obu_size fields): a packet that announces a continuation (Y=1)
				// although the OBU it carries is complete by its own size field - the continuation never comes
				n := r.Range(0, 12)
				o := ref.OBU{Type: uint8(r.Pick(6, 6, 3, 5, 1)), Payload: r.Bytes(n)}
				g = append([]byte{byte(r.Pick(0x50, 0x50, 0x40, 0x60))}, o.Raw(true)...)
				if g[0]&0x30 != 0x10 {
					// W=0 / W=2: the element is length-prefixed
					g = append([]byte{g[0]}, append(gen.LEB(uint64(len(g)-1)), g[1:]...)...)
				}
			}
			garbage = append(garbage, g)
		}
	case 1:
		t, ok := c15AV1Train(r, 8)
		if ok {
			for _, p := range t {
				if r.Bool() {
					frame1b = append(frame1b, p)
				}
			}
		}
	}
	if c.WantSample() {
		c.Sample(map[string]any{"codec": "av1", "earlier_frame_packets": len(frame1), "later_frame_packets": len(frame2)})
	}
	c15Run(c, "av1", func() depack { return &codecs.AV1Depacketizer{} }, frame1, frame1b, frame2, garbage, c15UnfinishedAV1, "z0")
}

// c15Large: the abandoned unit has megabytes of delivered fragments (size-dependent guards and buffer handling must
// not change what happens at the next start fragment).
func c15Large(c *fw.Ctx, i int) {
	r := c.R
	frag := r.Pick(1<<16, 1<<20, 3<<19, 1<<21)
	nfr := r.Pick(3, 5, 9)
	delivers := [][2]int{{0, nfr - 1}, {0, 1}, {1, nfr - 1}, {0, nfr}}
	if i%4 >= 2 {
		// the other extreme: an abandoned unit of very many tiny fragments, of which exactly 255, 256, 257, 512, 65536 ... were delivered
		frag = r.Pick(0, 1, 2, 7)
		nfr = r.Pick(300, 600, 1025, 65600)
		delivers = nil
		for _, d := range []int{255, 256, 257, 511, 512, 513, 1024, 65535, 65536, 65537} {
			if d < nfr {
				delivers = append(delivers, [2]int{0, d})
			}
		}
		delivers = append(delivers, [2]int{0, nfr - 1}, [2]int{1, 257})
	}
	if i%2 == 0 {
		avc := r.Bool()
		var frame1 [][]byte
		for q := 0; q < nfr; q++ {
			h := byte(5)
			if q == 0 {
				h |= 0x80
			}
			if q == nfr-1 {
				h |= 0x40
			}
			frame1 = append(frame1, append([]byte{0x60 | 28, h}, r.Bytes(frag)...))
		}
		frame2 := c15H264Train(r, 10)
		name := "h264-annexb"
		if avc {
			name = "h264-avc"
		}
		fresh, _, _ := c15Feed(&codecs.H264Packet{IsAVC: avc}, frame2)
		for _, deliver := range delivers {
			d := &codecs.H264Packet{IsAVC: avc}
			if _, pv, st := c15Feed(d, frame1[deliver[0]:deliver[1]]); pv != nil {
				c.Fail("C15/"+name+"/panic-in-history/"+fw.PanicFunc(st), fmt.Sprintf("panicked on large fragments: %v", pv), fw.W("fragment_bytes", frag, "fragments", nfr, "stack", st))
				return
			}
			got, pv, st := c15Feed(d, frame2)
			c.Evals(nfr + len(frame2))
			if pv != nil {
				c.Fail("C15/"+name+"/panic-after-loss/"+fw.PanicFunc(st), fmt.Sprintf("panicked on the intact frame: %v", pv), fw.W("stack", st))
				return
			}
			if k := c15Same(fresh, got); k >= 0 {
				c.Fail("C15/"+name+"/later-frame-decodes-differently/after-large-unfinished-fragment", fmt.Sprintf("packet %d of the intact frame decodes differently after an abandoned unit of %d fragments x %d bytes (delivered %d..%d)", k, nfr, frag, deliver[0], deliver[1]),
					fw.W("fragment_bytes", frag, "fragments", nfr, "delivered_from", deliver[0], "delivered_to", deliver[1], "intact_frame", fw.HexList(truncList(frame2, 64)), "fresh_ok", fresh[k].ok, "after_history_ok", got[k].ok,
						"fresh_output_len", len(fresh[k].out), "output_after_history_len", len(got[k].out)))
				return
			}
		}
		c.Shapef("large|%s|frag%d|n%d", name, frag>>16, nfr)
		c.Sample(map[string]any{"codec": name, "abandoned_unit_fragments": nfr, "fragment_bytes": frag})
		return
	}
	// AV1: one OBU spread over nfr packets of `frag` bytes each
	if frag == 0 {
		frag = 1 // an OBU element is never empty
	}
	var frame1 [][]byte
	for q := 0; q < nfr; q++ {
		b := byte(0x10) // W=1
		if q > 0 {
			b |= 0x80
		}
		if q < nfr-1 {
			b |= 0x40
		}
		pl := append([]byte{b}, r.Bytes(frag)...)
		if q == 0 {
			pl[1] = 6 << 3
		}
		frame1 = append(frame1, pl)
	}
	frame2, ok := c15AV1Train(r, 10)
	if !ok {
		return
	}
	fresh, _, _ := c15Feed(&codecs.AV1Depacketizer{}, frame2)
	for _, deliver := range delivers {
		d := &codecs.AV1Depacketizer{}
		if _, pv, st := c15Feed(d, frame1[deliver[0]:deliver[1]]); pv != nil {
			c.Fail("C15/av1/panic-in-history/"+fw.PanicFunc(st), fmt.Sprintf("panicked on large fragments: %v", pv), fw.W("fragment_bytes", frag, "fragments", nfr, "stack", st))
			return
		}
		got, pv, st := c15Feed(d, frame2)
		c.Evals(nfr + len(frame2))
		if pv != nil {
			c.Fail("C15/av1/panic-after-loss/"+fw.PanicFunc(st), fmt.Sprintf("panicked on the intact frame: %v", pv), fw.W("stack", st))
			return
		}
		if k := c15Same(fresh, got); k >= 0 {
			c.Fail("C15/av1/later-frame-decodes-differently/after-large-unfinished-fragment", fmt.Sprintf("packet %d of the intact frame decodes differently after an abandoned OBU of %d fragments x %d bytes", k, nfr, frag),
				fw.W("fragment_bytes", frag, "fragments", nfr, "delivered_from", deliver[0], "delivered_to", deliver[1]))
			return
		}
	}
	c.Shapef("large|av1|frag%d|n%d", frag>>16, nfr)
	c.Sample(map[string]any{"codec": "av1", "abandoned_obu_fragments": nfr, "fragment_bytes": frag})
}
