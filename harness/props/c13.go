package props

import (
	"bytes"
	"fmt"

	"github.com/pion/rtp/codecs"
	"github.com/pion/rtp/codecs/av1/frame"
	"github.com/pion/rtp/codecs/av1/obu"
	pkgframe "github.com/pion/rtp/pkg/frame"
	pkgobu "github.com/pion/rtp/pkg/obu"

	"verifharness/fw"
	"verifharness/ref"
)

func init() {
	fw.Register(&fw.Prop{
		ID:    "C13",
		Level: "exploration",
		Rule: "cases = OBU sequences (1-8 OBUs, every type 0-15, with/without extension header incl. runs of >= 3 distinct layer ids, reserved bits, payload sizes " +
			"{0, 1, MTU-4..MTU+4, 126..130, 16382..16386, random <= 4*MTU}, size field on all or omitted on the last) x MTU {2..48, 127..131, 1200, 16385, random}; " +
			"payload trains are parsed by an independent aggregation-header parser and fed to AV1Depacketizer and to fresh AV1Packets + a persistent frame " +
			"assembler; exhaustive: LEB128 on every v < 2^17, +-300 around 2^7/2^14/2^21/2^28, below 2^32 and a 2^20-point stride, all 2^16 OBU header byte " +
			"pairs; non-trivial = sequences with >= 2 transmitted OBUs or a fragmented OBU; distinct = (MTU class, #OBUs, type pattern, extension pattern, " +
			"size-vs-MTU classes, size-field-on-last)",
		Floor:     300,
		Technique: "runtime monitor: differential against an independent AV1 RTP aggregation parser/reassembler; three-way comparison of reassembled OBUs; exhaustive LEB128 / OBU-header strata",
		Assumptions: []string{
			"the N bit is not judged (the property does not mention it)",
			"an OBU whose extension byte falls into the next packet is not attributed to a layer in the packet where only its first byte lies",
		},
		Strata: []fw.Stratum{
			{Name: "obu-sequences", N: fw.Const(300000, 8000000), Run: c13Seq},
			{Name: "leb128-boundary-packing", N: fw.Const(6000, 300000), Run: c13Boundary},
			{Name: "leb128", N: fw.Const(c13LebBlocks, c13LebBlocks), Run: c13Leb, Exhaustive: true},
			{Name: "obu-header-all-2^16", N: fw.Const(256, 256), Run: c13Hdr, Exhaustive: true},
		},
	})
}

func c13MTU(r *fw.Rand) int {
	if r.Chance(1, 150) {
		return r.Pick(32767, 32768, 32769, 40000, 65534, 65535) // the MTU is a uint16: values with bit 15 set are ordinary
	}
	return r.Pick(2, 3, 4, 5, 6, 7, 8, 9, 10, 12, 16, 24, 32, 48, 127, 128, 129, 130, 131, 1200, 16385, r.Range(2, 48), r.Range(2, 48), r.Range(49, 2000))
}

func c13Size(r *fw.Rand, mtu int) int {
	s := r.Pick(0, 1, 2, mtu-4, mtu-3, mtu-2, mtu-1, mtu, mtu+1, mtu+2, mtu+3, mtu+4, 126, 127, 128, 129, 130, r.Range(0, 4*mtu), r.Range(0, 20), r.Range(0, mtu+2))
	if r.Chance(1, 60) {
		s = r.Pick(16382, 16383, 16384, 16385, 16386)
	}
	if mtu > 3 && r.Chance(1, 6) {
		// k full packets (mtu-1 bytes of OBU each) plus a remainder of 0-3 bytes (the OBU header is 1-2 bytes of the total)
		s = r.Range(1, 5)*(mtu-1) + r.Pick(-2, -1, 0, 1, 2, 3)
	}
	if s < 0 {
		s = 0
	}
	// keep packet counts per case bounded: tiny MTUs meet the 128 / 16384 boundaries through their own strata
	if lim := 24 * mtu; mtu < 100 && s > lim && s > 140 {
		s = r.Pick(126, 127, 128, 129, 130, lim)
		if mtu < 8 {
			s = r.Range(0, lim)
		}
	}
	if s > 70000 {
		s = 70000
	}
	if r.Chance(1, 40000) {
		s = r.Pick(65535, 65536, 65537, 66000) // more than 65535 packets at tiny MTUs
	}
	if mtu >= 1000 && r.Chance(1, 4000) {
		s = r.Pick(1<<21-2, 1<<21-1, 1<<21, 1<<21+1) // the size written in front of the reassembled OBU needs four LEB128 bytes
	}
	return s
}

// GenOBUs draws an OBU sequence.
func c13OBUs(r *fw.Rand, mtu int) []ref.OBU {
	n := r.Range(1, 8)
	if r.Chance(1, 100) {
		n = r.Pick(9, 31, 32, 33, 34, 64, 65, 100, 200) // temporal units with very many OBUs (tile groups, metadata)
	}
	layered := r.Intn(3) // 0: no extension headers, 1: mixed, 2: runs of distinct layer ids
	var out []ref.OBU
	tid, sid := uint8(r.Intn(8)), uint8(r.Intn(4))
	for k := 0; k < n; k++ {
		o := ref.OBU{}
		switch r.Intn(6) {
		case 0:
			o.Type = uint8(r.Intn(16))
		case 1:
			o.Type = uint8(r.Pick(1, 2, 8, 15, 0, 9))
		default:
			o.Type = uint8(r.Pick(3, 4, 5, 6, 6, 6, 7))
		}
		switch layered {
		case 1:
			o.HasExt = r.Bool()
			if r.Chance(1, 3) {
				tid, sid = uint8(r.Intn(8)), uint8(r.Intn(4))
			}
		case 2:
			o.HasExt = true
			if r.Chance(2, 3) {
				tid, sid = (tid+uint8(r.Range(1, 3)))&7, (sid+uint8(r.Intn(2)))&3
			}
		}
		if o.HasExt {
			o.TID, o.SID, o.ExtRes = tid, sid, uint8(r.Pick(0, 0, 0, 7, r.Intn(8)))
		}
		o.Reserved1 = r.Chance(1, 8)
		o.Payload = r.Bytes(c13Size(r, mtu))
		out = append(out, o)
	}
	return out
}

func c13Describe(obus []ref.OBU, sizeOnLast bool) []string {
	var d []string
	for _, o := range obus {
		s := fmt.Sprintf("t%d %dB", o.Type, len(o.Payload))
		if o.HasExt {
			s += fmt.Sprintf(" ext(t%d,s%d,r%d)", o.TID, o.SID, o.ExtRes)
		}
		if o.Reserved1 {
			s += " r1"
		}
		d = append(d, s)
	}
	if !sizeOnLast {
		d = append(d, "(no size field on the last)")
	}
	return d
}

func c13Seq(c *fw.Ctx, i int) {
	r := c.R
	mtu := c13MTU(r)
	obus := c13OBUs(r, mtu)
	c13Judge(c, i, mtu, obus, r.Bool())
}

// c13Boundary: k small OBUs followed by a large one, with the MTU chosen so that the free space left in the packet
// when the large OBU starts is at (or next to) a LEB128 size-class boundary (127/128, 16383/16384): that is where
// the length-field arithmetic of the aggregation has its edge cases.
func c13Boundary(c *fw.Ctx, i int) {
	mtu, obus := c13BoundaryCase(c.R)
	c13Judge(c, i, mtu, obus, c.R.Bool())
}

// c13BoundaryCase builds the (MTU, OBU sequence) of the LEB128-boundary packing stratum (also used by C08).
func c13BoundaryCase(r *fw.Rand) (int, []ref.OBU) {
	k := r.Range(0, 5)
	var obus []ref.OBU
	used := 0
	for q := 0; q < k; q++ {
		o := ref.OBU{Type: uint8(r.Pick(3, 4, 5, 6, 7)), Payload: r.Bytes(r.Pick(0, 1, 1, 2, 3))}
		obus = append(obus, o)
		used += 1 + 1 + len(o.Payload) // length field + header + payload (each is short)
	}
	target := r.Pick(126, 127, 128, 129, 130, 16382, 16383, 16384, 16385, 16386)
	if r.Chance(2, 3) {
		target = r.Pick(126, 127, 128, 129, 130)
	}
	mtu := 1 + used + target
	if mtu > 65535 || mtu < 2 {
		mtu = 200
	}
	big := ref.OBU{Type: 6, Payload: r.Bytes(r.Pick(target-3, target-2, target-1, target, target+1, target+2, 2*target, target+r.Range(3, 300)))}
	obus = append(obus, big)
	if r.Bool() {
		obus = append(obus, ref.OBU{Type: uint8(r.Pick(4, 5, 6)), Payload: r.Bytes(r.Pick(0, 1, 5, 200))})
	}
	return mtu, obus
}

func c13Judge(c *fw.Ctx, i int, mtu int, obus []ref.OBU, sizeOnLast bool) {
	r := c.R
	_ = r
	var in []byte
	nonMinimal := r.Chance(1, 8)
	for k := range obus {
		if (k < len(obus)-1 || sizeOnLast) && nonMinimal && len(obus[k].Payload) < 1<<14 {
			// leb128() may carry superfluous continuation bytes (AV1 spec 4.10.5): same value, longer encoding
			in = append(in, obus[k].Header(true)...)
			sz := ref.LEB128(uint64(len(obus[k].Payload)))
			sz[len(sz)-1] |= 0x80
			sz = append(sz, 0x00)
			in = append(in, sz...)
			in = append(in, obus[k].Payload...)
			continue
		}
		in = append(in, obus[k].Raw(k < len(obus)-1 || sizeOnLast)...)
	}
	var expect [][]byte // transmitted form: header without size + payload
	var expectSized []byte
	for k := range obus {
		if obus[k].Type == 2 || obus[k].Type == 8 {
			continue
		}
		expect = append(expect, obus[k].Raw(false))
		expectSized = append(expectSized, obus[k].Raw(true)...)
	}
	wit := func(extra ...any) map[string]any {
		m := fw.W("mtu", mtu, "obus", c13Describe(obus, sizeOnLast), "input", fw.Trunc(fw.Hex(in), 600))
		for q := 0; q+1 < len(extra); q += 2 {
			m[fmt.Sprint(extra[q])] = extra[q+1]
		}
		return m
	}
	var payloads [][]byte
	p := &codecs.AV1Payloader{}
	pristine := append([]byte(nil), in...)
	if pv, st := fw.Guard(func() { payloads = p.Payload(uint16(mtu), in) }); pv != nil {
		c.Fail("C13/payloader/panic/"+fw.PanicFunc(st), fmt.Sprintf("AV1Payloader.Payload panicked: %v", pv), wit("stack", st))
		return
	}
	c.Evals(1)
	if !bytes.Equal(in, pristine) {
		c.Fail("C13/payloader/input-modified", "the payloader modified its input", wit())
		return
	}
	fragmented := false
	pat := ""
	for k, o := range obus {
		if k < 5 {
			e := "-"
			if o.HasExt {
				e = fmt.Sprintf("%d%d", o.TID, o.SID)
			}
			tc := "o"
			switch o.Type {
			case 1:
				tc = "S"
			case 2:
				tc = "T"
			case 8:
				tc = "L"
			}
			pat += tc + e + sizeVsMTU(len(o.Payload)+2, mtu)
		}
		if len(o.Payload)+2 > mtu {
			fragmented = true
		}
	}
	if len(expect) >= 2 || fragmented {
		c.Shapef("mtu%s|n%d|%s|last%v", lenClassS(mtu), len(obus), pat, sizeOnLast)
	}
	if c.WantSample() {
		c.Sample(map[string]any{"mtu": mtu, "obus": c13Describe(obus, sizeOnLast), "packets": len(payloads)})
	}
	wit2 := func(extra ...any) map[string]any {
		m := wit(extra...)
		m["payloads"] = fw.HexList(truncList(payloads, 48))
		return m
	}
	for k, pl := range payloads {
		if len(pl) > mtu {
			c.Fail("C13/payloader/payload-exceeds-mtu", fmt.Sprintf("payload %d has %d bytes, MTU %d", k, len(pl), mtu), wit2())
			return
		}
	}
	got, rule, detail := ref.AV1Reassemble(payloads)
	if rule != "" {
		c.Fail("C13/aggregation/"+rule, "the payload train violates the AV1 RTP aggregation rules: "+detail, wit2())
		return
	}
	c.Count("trains_obeying_aggregation_rules", 1)
	if len(got) != len(expect) {
		c.Fail("C13/payloader/obu-count-differs", fmt.Sprintf("%d OBUs reassembled by the reference parser, %d expected", len(got), len(expect)), wit2())
		return
	}
	for k := range expect {
		if !bytes.Equal(got[k], expect[k]) {
			c.Fail("C13/payloader/obu-differs", fmt.Sprintf("reassembled OBU %d differs from the input OBU (size flag cleared)", k), wit2("got", fw.Trunc(fw.Hex(got[k]), 200), "want", fw.Trunc(fw.Hex(expect[k]), 200)))
			return
		}
	}
	// (b) AV1Depacketizer
	d := &codecs.AV1Depacketizer{}
	var outStream []byte
	var outs [][]byte
	for k, pl := range payloads {
		var out []byte
		var err error
		if pv, st := fw.Guard(func() { out, err = d.Unmarshal(fw.Exact(pl)) }); pv != nil {
			c.Fail("C13/depacketizer/panic/"+fw.PanicFunc(st), fmt.Sprintf("AV1Depacketizer panicked on payloader output: %v", pv), wit2("stack", st))
			return
		}
		c.Evals(1)
		if err != nil {
			c.Fail("C13/depacketizer/rejects-payloader-output", fmt.Sprintf("AV1Depacketizer rejects payload %d: %v", k, err), wit2())
			return
		}
		outs = append(outs, out) // kept as returned; joined when the temporal unit is complete
	}
	for _, o := range outs {
		outStream = append(outStream, o...)
	}
	if !bytes.Equal(outStream, expectSized) {
		c.Fail("C13/depacketizer/stream-differs", "AV1Depacketizer does not reproduce the OBUs (with size fields)", wit2("got", fw.Trunc(fw.Hex(outStream), 400), "want", fw.Trunc(fw.Hex(expectSized), 400)))
		return
	}
	// (c) deprecated AV1Packet + frame assembler (both import paths alternate)
	var f frame.AV1
	var pf pkgframe.AV1
	var viaFrame [][]byte
	for k, pl := range payloads {
		pkt := &codecs.AV1Packet{}
		var list [][]byte
		var err error
		if pv, st := fw.Guard(func() {
			if _, err = pkt.Unmarshal(fw.Exact(pl)); err != nil {
				return
			}
			if i%2 == 0 {
				list, err = f.ReadFrames(pkt)
			} else {
				list, err = pf.ReadFrames(pkt)
			}
		}); pv != nil {
			c.Fail("C13/av1packet/panic/"+fw.PanicFunc(st), fmt.Sprintf("AV1Packet/frame assembler panicked on payloader output: %v", pv), wit2("stack", st))
			return
		}
		c.Evals(2)
		if err != nil {
			if len(pl) < 2 {
				// AV1Packet documents a two byte minimum; a one byte payload cannot occur (no empty packets)
			}
			c.Fail("C13/av1packet/rejects-payloader-output", fmt.Sprintf("AV1Packet/frame assembler rejects payload %d: %v", k, err), wit2())
			return
		}
		for _, o := range list {
			viaFrame = append(viaFrame, append([]byte(nil), o...))
		}
	}
	if len(viaFrame) != len(expect) {
		c.Fail("C13/av1packet/obu-count-differs", fmt.Sprintf("%d OBUs from AV1Packet + frame assembler, %d expected", len(viaFrame), len(expect)), wit2())
		return
	}
	for k := range expect {
		if !bytes.Equal(viaFrame[k], expect[k]) {
			c.Fail("C13/av1packet/obu-differs", fmt.Sprintf("OBU %d from AV1Packet + frame assembler differs", k), wit2("got", fw.Trunc(fw.Hex(viaFrame[k]), 200)))
			return
		}
	}
	c.Count("three_way_reassembly_equal", 1)
}

// ---- LEB128 ----

var c13LebCenters = []uint64{1 << 7, 1 << 14, 1 << 21, 1 << 28}

const c13LebBlocks = 128 + 4 + 1 + 64 // 2^17 in blocks of 1024, 4 boundary windows, top of range, 64 stride blocks

func c13LebValue(c *fw.Ctx, v uint64) bool {
	want := ref.LEB128(v)
	got := obu.WriteToLeb128(uint(v))
	if !bytes.Equal(got, want) {
		c.Fail("C13/leb128/write-differs", fmt.Sprintf("WriteToLeb128(%d) = %s, want %s", v, fw.Hex(got), fw.Hex(want)), fw.W("value", v))
		return false
	}
	for variant, rd := range []func([]byte) (uint, uint, error){obu.ReadLeb128, pkgobu.ReadLeb128} {
		in := append(append([]byte(nil), want...), 0xAB, 0x80)
		val, n, err := rd(in)
		if err != nil || uint64(val) != v || int(n) != len(want) {
			c.Fail("C13/leb128/read-differs", fmt.Sprintf("ReadLeb128(%s) = (%d, %d, %v), want (%d, %d)", fw.Hex(in), val, n, err, v, len(want)), fw.W("value", v, "variant", variant))
			return false
		}
		if len(want) > 1 {
			if _, _, err := rd(want[:len(want)-1]); err == nil {
				c.Fail("C13/leb128/read-accepts-truncated", fmt.Sprintf("ReadLeb128 accepted the truncated encoding of %d", v), fw.W("value", v))
				return false
			}
		}
	}
	var packed uint64
	for _, b := range want {
		packed = packed<<8 | uint64(b)
	}
	if e := obu.EncodeLEB128(uint(v)); uint64(e) != packed || uint64(pkgobu.EncodeLEB128(uint(v))) != packed {
		c.Fail("C13/leb128/encode-differs", fmt.Sprintf("EncodeLEB128(%d) = %#x, want %#x", v, e, packed), fw.W("value", v))
		return false
	}
	return true
}

func c13Leb(c *fw.Ctx, i int) {
	var lo, hi uint64
	step := uint64(1)
	switch {
	case i < 128:
		lo, hi = uint64(i)<<10, uint64(i+1)<<10
	case i < 132:
		ce := c13LebCenters[i-128]
		lo, hi = ce-300, ce+301
	case i == 132:
		lo, hi = 1<<32-600, 1<<32
	default:
		// stride over [0, 2^32): 2^20 points in 64 blocks
		b := uint64(i - 133)
		step = 4096 + 1 // odd stride so that low bits vary
		lo, hi = b<<26, (b+1)<<26
	}
	n := 0
	for v := lo; v < hi; v += step {
		if !c13LebValue(c, v) {
			return
		}
		n++
	}
	if _, _, err := obu.ReadLeb128(nil); err == nil {
		c.Fail("C13/leb128/read-accepts-empty", "ReadLeb128(nil) succeeded", nil)
		return
	}
	c.Evals(4 * n)
	c.Shapef("leb-block-%d", i)
	if i == 128 {
		c.Sample(map[string]any{"leb128_values": fmt.Sprintf("%d..%d", lo, hi-1)})
	}
}

func c13Hdr(c *fw.Ctx, i int) {
	b0 := byte(i)
	for x := 0; x < 256; x++ {
		b1 := byte(x)
		for _, in := range [][]byte{{b0, b1}, {b0}} {
			var h *obu.Header
			var err error
			if pv, st := fw.Guard(func() { h, err = obu.ParseOBUHeader(in) }); pv != nil {
				c.Fail("C13/obuheader/panic/"+fw.PanicFunc(st), fmt.Sprintf("ParseOBUHeader panicked: %v", pv), fw.W("input", fw.Hex(in), "stack", st))
				return
			}
			c.Evals(1)
			w := fw.W("input", fw.Hex(in))
			forbidden := b0&0x80 != 0
			hasExt := b0&0x04 != 0
			if forbidden || (hasExt && len(in) < 2) {
				if err == nil {
					c.Fail("C13/obuheader/accepts-invalid", "ParseOBUHeader accepted a header with the forbidden bit or a missing extension byte", w)
					return
				}
				continue
			}
			if err != nil {
				c.Fail("C13/obuheader/rejects-valid", "ParseOBUHeader rejected a valid header: "+err.Error(), w)
				return
			}
			if uint8(h.Type) != b0>>3&0x0F || h.HasSizeField != (b0&0x02 != 0) || h.Reserved1Bit != (b0&0x01 != 0) || (h.ExtensionHeader != nil) != hasExt {
				c.Fail("C13/obuheader/fields-differ", fmt.Sprintf("parsed type %d size %v r1 %v ext %v", h.Type, h.HasSizeField, h.Reserved1Bit, h.ExtensionHeader != nil), w)
				return
			}
			consumed := 1
			if hasExt {
				consumed = 2
				e := h.ExtensionHeader
				if e.TemporalID != b1>>5 || e.SpatialID != b1>>3&3 || e.Reserved3Bits != b1&7 {
					c.Fail("C13/obuheader/extension-fields-differ", fmt.Sprintf("parsed tid %d sid %d res %d", e.TemporalID, e.SpatialID, e.Reserved3Bits), w)
					return
				}
			}
			if h.Size() != consumed {
				c.Fail("C13/obuheader/size", fmt.Sprintf("Size() = %d, header is %d bytes", h.Size(), consumed), w)
				return
			}
			m := h.Marshal()
			if !bytes.Equal(m, in[:consumed]) {
				c.Fail("C13/obuheader/marshal-not-inverse", fmt.Sprintf("Marshal(Parse(%s)) = %s", fw.Hex(in[:consumed]), fw.Hex(m)), w)
				return
			}
			h2, err := obu.ParseOBUHeader(m)
			if err != nil || h2.Type != h.Type || h2.HasSizeField != h.HasSizeField || h2.Reserved1Bit != h.Reserved1Bit || (h2.ExtensionHeader == nil) != (h.ExtensionHeader == nil) ||
				(h.ExtensionHeader != nil && *h2.ExtensionHeader != *h.ExtensionHeader) {
				c.Fail("C13/obuheader/parse-not-inverse", "Parse(Marshal(h)) != h", w)
				return
			}
		}
	}
	c.Shapef("hdr-b0-%02x", b0&0xFC)
	if i == 0x34 {
		c.Sample(map[string]any{"first_byte": "0x34", "second_bytes": "all 256", "also": "one-byte input"})
	}
}
