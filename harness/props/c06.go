package props

import (
	"bytes"
	"fmt"
	"sort"
	"sync"
	"time"

	"github.com/pion/rtp"
	"github.com/pion/rtp/codecs"

	"verifharness/fw"
	"verifharness/gen"
	"verifharness/ref"
)

func init() {
	fw.Register(&fw.Prop{
		ID:    "C06",
		Level: "exploration",
		Rule: "cases = operation sequences (1-10 ops of Packetize / SkipSamples / GeneratePadding) on one packetizer over MTUs {64, 65, 100, 576, 1200, 1500, " +
			"65535, random >= 64}, all eight real payloaders behind a recording wrapper plus a synthetic payloader that fills its budget exactly, fixed and " +
			"random sequencers (start values next to the 16-bit wrap; a fifth each caller-supplied and wrapped Sequencer implementations), sample counts {0, 1, 2^31, 2^32-1, random}, abs-send-time off or id 1-14 with an injected " +
			"clock at adversarial instants; every returned packet is compared with a shadow model of the train; a small race-build phase shares one sequencer " +
			"between two packetizers; non-trivial = a sequence with at least one Packetize call that produced >= 2 packets or any GeneratePadding call; " +
			"distinct = (payloader, MTU class, abs-send-time, op-kind sequence prefix, fragment-count class)",
		Floor:     200,
		Technique: "runtime monitor: shadow model of the packet train fed by a recording payloader wrapper; injected-clock reference for abs-send-time; Marshal/Unmarshal oracle; race detector on a shared sequencer",
		Assumptions: []string{
			"the payloader's fragments are whatever the wrapped payloader returned for the budget it was handed (recorded at the interface)",
			"without the clock hook the send instant is bracketed by two clock reads around the call",
		},
		Strata: []fw.Stratum{
			{Name: "op-sequences", N: fw.Const(200000, 5000000), Run: c06Seq},
			{Name: "clock-walks", N: fw.Const(4000, 100000), Run: c06Clock},
			{Name: "shared-sequencer", N: fw.Const(1000, 30000), Run: c06Shared, Race: true, Serial: true},
		},
	})
}

type recPayloader struct {
	inner   rtp.Payloader
	budgets []uint16
	frags   [][][]byte
	inputs  [][]byte
}

func (r *recPayloader) Payload(mtu uint16, payload []byte) [][]byte {
	out := r.inner.Payload(mtu, payload)
	r.budgets = append(r.budgets, mtu)
	cp := make([][]byte, len(out))
	for i, f := range out {
		cp[i] = append([]byte(nil), f...)
	}
	r.frags = append(r.frags, cp)
	return out
}

// fillPayloader always fills the budget exactly.
type fillPayloader struct{}

func (fillPayloader) Payload(mtu uint16, payload []byte) [][]byte {
	var out [][]byte
	if mtu == 0 {
		return out
	}
	for len(payload) > 0 {
		f := make([]byte, mtu)
		n := copy(f, payload)
		payload = payload[n:]
		out = append(out, f)
	}
	return out
}

// quietPayloader splits like G711 but returns no fragment at all for inputs
// that start with 0xEE (like a video payloader that swallows a unit).
type quietPayloader struct{}

func (quietPayloader) Payload(mtu uint16, payload []byte) [][]byte {
	if len(payload) > 0 && payload[0] == 0xEE {
		return nil
	}
	return (&codecs.G711Payloader{}).Payload(mtu, payload)
}

// oddPayloader returns legal but unusual shapes: a nil fragment or an empty fragment among the fragments.
type oddPayloader struct{}

func (oddPayloader) Payload(mtu uint16, payload []byte) [][]byte {
	out := (&codecs.G711Payloader{}).Payload(mtu, payload)
	if len(payload) == 0 {
		return out
	}
	switch payload[0] % 4 {
	case 0:
		out = append(out, nil)
	case 1:
		out = append([][]byte{{}}, out...)
	case 2:
		if len(out) > 1 {
			out[len(out)/2] = []byte{}
		}
	}
	return out
}

var c06PayloaderNames = []string{"g711", "g722", "opus", "h264", "h265", "vp8", "vp9-flex", "vp9-nonflex", "av1", "fill-budget", "sometimes-silent", "odd-shapes"}

func c06Payloader(k int) rtp.Payloader {
	switch k {
	case 0:
		return &codecs.G711Payloader{}
	case 1:
		return &codecs.G722Payloader{}
	case 2:
		return &codecs.OpusPayloader{}
	case 3:
		return &codecs.H264Payloader{}
	case 4:
		return &codecs.H265Payloader{}
	case 5:
		return &codecs.VP8Payloader{EnablePictureID: true}
	case 6:
		return &codecs.VP9Payloader{FlexibleMode: true, InitialPictureIDFn: func() uint16 { return 0x7FFE }}
	case 7:
		return &codecs.VP9Payloader{InitialPictureIDFn: func() uint16 { return 5 }}
	case 8:
		return &codecs.AV1Payloader{}
	case 9:
		return fillPayloader{}
	case 10:
		return quietPayloader{}
	}
	return oddPayloader{}
}

// c06Input builds an input the payloader can do something with.
func c06Input(r *fw.Rand, k int, n int) []byte {
	if n < 1 {
		n = 1
	}
	b := r.Bytes(n)
	if r.Chance(1, 6) {
		// an input for which the payloader returns no fragment at all (the call still advances the timestamp)
		switch k {
		case 3:
			return []byte{0x09, 0xF0} // access unit delimiter
		case 4:
			return []byte{0x40} // shorter than an HEVC NAL header
		case 7:
			return []byte{0x00, 0x01, 0x02} // not a VP9 frame marker
		case 8:
			return []byte{0x12, 0x00} // temporal delimiter
		case 10:
			b[0] = 0xEE
			return b
		}
	}
	switch k {
	case 3: // H264: one NAL unit of type 1-23 without start codes inside
		b[0] = byte(r.Range(1, 23)) | byte(r.Intn(4))<<5
		if b[0]&0x1F == 9 || b[0]&0x1F == 12 || b[0]&0x1F == 7 || b[0]&0x1F == 8 {
			b[0] = b[0]&0xE0 | 5
		}
		for i := 1; i < len(b); i++ {
			if b[i] < 2 {
				b[i] = 2
			}
		}
	case 4: // H265: one NAL unit
		if n < 3 {
			b = append(b, 1, 2, 3)
		}
		b[0] = byte(r.Range(0, 40)) << 1
		b[1] = 1
		for i := 2; i < len(b); i++ {
			if b[i] < 2 {
				b[i] = 2
			}
		}
	case 7: // VP9 non-flexible: needs a parsable uncompressed header; a non-key frame of profile 0
		b[0] = 0x80 | 0x04 | byte(r.Intn(4)) // marker 10, profile 0, show_existing 0, non-key 1
	case 8: // AV1: one OBU of type frame without size field
		b[0] = 6 << 3
	}
	return b
}

func ntpField(ns int64) uint32 {
	sec := uint64(ns/1e9) + 2208988800
	frac := (uint64(ns%1e9) << 32) / 1e9
	ntp := sec<<32 | frac
	return uint32(ntp>>14) & 0xFFFFFF
}

// ownSequencer is a Sequencer written by the caller: hands out next, next+1, ...
type ownSequencer struct {
	mu   sync.Mutex
	next uint16
	roll uint64
}

func (s *ownSequencer) NextSequenceNumber() uint16 {
	s.mu.Lock()
	defer s.mu.Unlock()
	v := s.next
	s.next++
	if v == 0 {
		s.roll++
	}
	return v
}

func (s *ownSequencer) RollOverCount() uint64 {
	s.mu.Lock()
	defer s.mu.Unlock()
	return s.roll
}

// wrapSequencer delegates to a library sequencer (what an application does to log or share numbers).
type wrapSequencer struct{ inner rtp.Sequencer }

func (s *wrapSequencer) NextSequenceNumber() uint16 { return s.inner.NextSequenceNumber() }
func (s *wrapSequencer) RollOverCount() uint64      { return s.inner.RollOverCount() }

func c06Seq(c *fw.Ctx, i int) {
	r := c.R
	pk := i % len(c06PayloaderNames)
	mtu := uint16(r.Pick(64, 65, 100, 576, 1200, 1500, 65535, r.Range(64, 2000), r.Range(64, 65535)))
	pt := uint8(r.Intn(128))
	ssrc := uint32(r.PickU64(0, 0, 1, 0xFFFFFFFF, 0x80000000, r.U64(), r.U64(), r.U64())) // 0 is an SSRC like any other
	var start uint16
	fixed := r.Chance(3, 4)
	if fixed {
		start = uint16(r.Pick(0, 1, 65530, 65535, 65533, r.Intn(65536)))
	}
	var seq rtp.Sequencer
	seqKind := "library"
	if fixed {
		seq = rtp.NewFixedSequencer(start)
		switch r.Intn(5) {
		case 0:
			seqKind = "caller-supplied"
			// Sequencer is an interface: a caller-supplied implementation must be served exactly like the built-in one
			seq = &ownSequencer{next: start}
			c.Count("runs_with_caller_supplied_sequencer", 1)
		case 1:
			seqKind = "wrapped-library-sequencer"
			seq = &wrapSequencer{inner: seq}
			c.Count("runs_with_wrapped_sequencer", 1)
		}
	} else {
		seq = rtp.NewRandomSequencer()
	}
	rec := &recPayloader{inner: c06Payloader(pk)}
	var p rtp.Packetizer
	clockRate := uint32(r.PickU64(0, 1, 8000, 48000, 90000, 1<<32-1))
	if pv, st := fw.Guard(func() {
		p = rtp.NewPacketizer(mtu, pt, ssrc, rec, seq, clockRate)
		// an unrelated packetizer created right after it (other SSRC, payload type, MTU): instances are independent
		o := rtp.NewPacketizer(mtu/2+40, pt^0x55&0x7F, ^ssrc, &codecs.G711Payloader{}, rtp.NewFixedSequencer(start+1000), 8000)
		o.EnableAbsSendTime(int(pt%14) + 1)
		o.Packetize([]byte{1, 2, 3}, 7)
	}); pv != nil {
		c.Fail("C06/panic/NewPacketizer/"+fw.PanicFunc(st), fmt.Sprintf("NewPacketizer panicked: %v", pv), fw.W("stack", st))
		return
	}
	absID := 0
	if r.Bool() {
		absID = r.Range(1, 14)
		p.EnableAbsSendTime(absID)
	}
	var clockNs int64
	hooked := hookSetClock(p, func() time.Time { return time.Unix(0, clockNs) })
	tsKnown := false
	var ts uint32
	if v, ok := hookPacketizerTimestamp(p); ok {
		ts, tsKnown = v, true
	}
	seqKnown := fixed
	nextSeq := start
	var trace []string
	type kept struct {
		pkt  *rtp.Packet
		wire []byte
		op   int
	}
	var history []kept
	recheck := func() bool {
		for _, k := range history {
			now, err := k.pkt.Marshal()
			if err != nil || !bytes.Equal(now, k.wire) {
				c.Fail("C06/history/earlier-packet-changed-by-a-later-call", fmt.Sprintf("a packet returned by operation %d serialises differently after later operations on the packetizer", k.op),
					fw.W("payloader", c06PayloaderNames[pk], "mtu", mtu, "abs_send_time_id", absID, "ops", append([]string{}, trace...), "then", fw.Trunc(fw.Hex(k.wire), 160), "now", fw.Trunc(fw.Hex(now), 160)))
				return false
			}
		}
		return true
	}
	maxFrags := 0
	didPadding := false
	wit := func(extra ...any) map[string]any {
		m := fw.W("payloader", c06PayloaderNames[pk], "mtu", mtu, "pt", pt, "ssrc", ssrc, "fixed_sequencer", fixed, "sequencer", seqKind, "start", start, "abs_send_time_id", absID, "ops", append([]string{}, trace...))
		for q := 0; q+1 < len(extra); q += 2 {
			m[fmt.Sprint(extra[q])] = extra[q+1]
		}
		return m
	}
	checkCommon := func(pkt *rtp.Packet, idx int, what string) bool {
		c.Count("packets_checked", 1)
		if pkt == nil {
			c.Fail("C06/"+what+"/nil-packet", "a nil packet was returned", wit("index", idx))
			return false
		}
		if seqKnown && pkt.SequenceNumber != nextSeq {
			c.Fail("C06/"+what+"/sequence-number", fmt.Sprintf("packet %d has sequence number %d, the train continues at %d", idx, pkt.SequenceNumber, nextSeq), wit())
			return false
		}
		if !seqKnown {
			if !fixed && pkt.SequenceNumber >= 1<<15 && len(trace) == 1 && idx == 0 {
				c.Fail("C06/"+what+"/random-sequencer-start", "first number of a random sequencer is not below 2^15", wit())
				return false
			}
			seqKnown = true
			nextSeq = pkt.SequenceNumber
		}
		nextSeq++
		if what == "padding" {
			// the property does not fix the timestamp of padding packets
		} else if tsKnown && pkt.Timestamp != ts {
			c.Fail("C06/"+what+"/timestamp", fmt.Sprintf("packet %d has timestamp %d, the model says %d", idx, pkt.Timestamp, ts), wit())
			return false
		}
		if !tsKnown && what != "padding" {
			tsKnown, ts = true, pkt.Timestamp
		}
		if pkt.SSRC != ssrc || pkt.PayloadType != pt || pkt.Version != 2 || len(pkt.CSRC) != 0 {
			c.Fail("C06/"+what+"/fixed-fields", fmt.Sprintf("packet %d: ssrc %d pt %d version %d csrc %d", idx, pkt.SSRC, pkt.PayloadType, pkt.Version, len(pkt.CSRC)), wit())
			return false
		}
		return true
	}

	nops := r.Range(1, 10)
	for op := 0; op < nops; op++ {
		if op > 0 && r.Chance(1, 12) {
			// the extension is switched on (or moved to another id) in mid-stream: what was computed for earlier calls no longer applies
			absID = r.Range(1, 14)
			trace = append(trace, fmt.Sprintf("EnableAbsSendTime(%d)", absID))
			if pv, st := fw.Guard(func() { p.EnableAbsSendTime(absID) }); pv != nil {
				c.Fail("C06/panic/EnableAbsSendTime/"+fw.PanicFunc(st), fmt.Sprintf("EnableAbsSendTime panicked: %v", pv), wit("stack", st))
				return
			}
			c.Count("abs_send_time_enabled_in_mid_stream", 1)
		}
		switch r.Intn(10) {
		case 0, 1: // SkipSamples
			n := uint32(r.PickU64(0, 1, 1<<31, 1<<32-1, r.U64()))
			if tsKnown && r.Chance(1, 4) {
				n = uint32(r.PickU64(0, 1, 1<<32-1, 1<<31)) - ts // steer the running timestamp to 0, 1, 2^32-1, 2^31: values like any other
			}
			trace = append(trace, fmt.Sprintf("SkipSamples(%d)", n))
			if pv, st := fw.Guard(func() { p.SkipSamples(n) }); pv != nil {
				c.Fail("C06/panic/SkipSamples/"+fw.PanicFunc(st), fmt.Sprintf("SkipSamples panicked: %v", pv), wit("stack", st))
				return
			}
			ts += n
		case 2, 3: // GeneratePadding
			n := uint32(r.Pick(0, 1, 2, 3, r.Range(1, 9)))
			if r.Chance(1, 3000) {
				n = uint32(r.Pick(32767, 32768, 65535, 65536, 65537, 70000)) // the count is a uint32: a burst across the whole sequence space
				c.Count("padding_bursts_of_32767_or_more", 1)
			}
			trace = append(trace, fmt.Sprintf("GeneratePadding(%d)", n))
			var pkts []*rtp.Packet
			if pv, st := fw.Guard(func() { pkts = p.GeneratePadding(n) }); pv != nil {
				c.Fail("C06/panic/GeneratePadding/"+fw.PanicFunc(st), fmt.Sprintf("GeneratePadding panicked: %v", pv), wit("stack", st))
				return
			}
			c.Evals(1)
			if len(pkts) != int(n) {
				c.Fail("C06/padding/count", fmt.Sprintf("GeneratePadding(%d) returned %d packets", n, len(pkts)), wit())
				return
			}
			for k, pkt := range pkts {
				if !checkCommon(pkt, k, "padding") {
					return
				}
				var wire []byte
				var err error
				if pv, st := fw.Guard(func() { wire, err = pkt.Marshal() }); pv != nil {
					c.Fail("C06/padding/marshal-panics/"+fw.PanicFunc(st), fmt.Sprintf("Marshal of a padding packet panicked: %v", pv), wit("stack", st))
					return
				}
				if err != nil {
					c.Fail("C06/padding/does-not-marshal", "a packet from GeneratePadding cannot be serialised: "+err.Error(), wit("padding_flag", pkt.Padding, "padding_size", pkt.PaddingSize, "payload_len", len(pkt.Payload)))
					return
				}
				d, hn, derr := ref.Decode(wire)
				if derr != nil {
					c.Fail("C06/padding/not-a-valid-rtp-packet", "the serialised padding packet is not a well-formed RTP packet", wit("wire", fw.Trunc(fw.Hex(wire), 120)))
					return
				}
				if wire[0]&0x20 == 0 || len(d.Payload) != 0 || d.PadSize == 0 || int(d.PadSize) != len(wire)-hn || wire[len(wire)-1] != d.PadSize {
					c.Fail("C06/padding/not-padding-only", fmt.Sprintf("serialised padding packet: P=%v payload %d bytes, padding count %d, %d bytes after the header", wire[0]&0x20 != 0, len(d.Payload), d.PadSize, len(wire)-hn), wit("wire", fw.Trunc(fw.Hex(wire), 120)))
					return
				}
				if d.Seq != pkt.SequenceNumber || d.TS != pkt.Timestamp || d.SSRC != ssrc || d.PT != pt || d.Version != 2 {
					c.Fail("C06/padding/wire-fields", "serialised padding packet carries other header fields than the returned packet", wit("wire", fw.Trunc(fw.Hex(wire), 120)))
					return
				}
				if len(wire) > int(mtu) && mtu >= 267 {
					c.Fail("C06/padding/exceeds-mtu", fmt.Sprintf("padding packet of %d bytes, MTU %d", len(wire), mtu), wit())
					return
				}
			}
			if n > 0 {
				didPadding = true
			}
		default: // Packetize
			budgetIdx := len(rec.budgets)
			samples := uint32(r.PickU64(0, 1, 960, 3000, 1<<31, 1<<32-1, r.U64()))
			budget := int(mtu) - 12
			n := r.Pick(1, 2, budget-1, budget, budget+1, 2*budget-1, 2*budget, 2*budget+1, 3*budget+5, r.Range(1, 4*budget))
			if n > 200000 {
				n = 200000 - r.Intn(5)
			}
			if r.Chance(1, 6000) && mtu >= 1200 {
				n = 1<<24 + r.Pick(-1, 0, 1, 4096) // a frame of 16 MiB: large, not implausible (uncompressed video), and not empty
				c.Count("frames_of_16MiB", 1)
			}
			in := c06Input(r, pk, n)
			trace = append(trace, fmt.Sprintf("Packetize(%dB,%d)", len(in), samples))
			if hooked {
				ns, _ := c18Instant(r, 0)
				clockNs = ns
			}
			before := time.Now()
			var pkts []*rtp.Packet
			if pv, st := fw.Guard(func() { pkts = p.Packetize(in, samples) }); pv != nil {
				c.Fail("C06/panic/Packetize/"+fw.PanicFunc(st), fmt.Sprintf("Packetize panicked: %v", pv), wit("stack", st))
				return
			}
			after := time.Now()
			c.Evals(1)
			if len(rec.budgets) != budgetIdx+1 {
				c.Fail("C06/packetize/payloader-not-called-once", fmt.Sprintf("the payloader was called %d times for one Packetize", len(rec.budgets)-budgetIdx), wit())
				return
			}
			frags := rec.frags[budgetIdx]
			gotBudget := int(rec.budgets[budgetIdx])
			if len(pkts) != len(frags) {
				c.Fail("C06/packetize/packet-count", fmt.Sprintf("%d packets for %d fragments", len(pkts), len(frags)), wit())
				return
			}
			if len(frags) > maxFrags {
				maxFrags = len(frags)
			}
			honoured := true
			for _, f := range frags {
				if len(f) > gotBudget {
					honoured = false
				}
			}
			for k, pkt := range pkts {
				if !checkCommon(pkt, k, "packetize") {
					return
				}
				last := k == len(pkts)-1
				if !bytes.Equal(pkt.Payload, frags[k]) {
					c.Fail("C06/packetize/fragment-changed", fmt.Sprintf("packet %d does not carry fragment %d unchanged", k, k), wit())
					return
				}
				if pkt.Marker != last {
					c.Fail("C06/packetize/marker", fmt.Sprintf("packet %d of %d has marker %v", k, len(pkts), pkt.Marker), wit())
					return
				}
				if pkt.Padding || pkt.PaddingSize != 0 {
					c.Fail("C06/packetize/unexpected-padding", "a media packet has padding", wit())
					return
				}
				wantExt := last && absID != 0
				if pkt.Extension != wantExt {
					c.Fail("C06/packetize/extension-presence", fmt.Sprintf("packet %d of %d: extension present = %v, abs-send-time id = %d", k, len(pkts), pkt.Extension, absID), wit())
					return
				}
				if wantExt {
					ids := pkt.GetExtensionIDs()
					v := pkt.GetExtension(uint8(absID))
					if len(ids) != 1 || ids[0] != uint8(absID) || len(v) != 3 {
						c.Fail("C06/packetize/abs-send-time-element", fmt.Sprintf("extension ids %v, value %s", ids, fw.Hex(v)), wit())
						return
					}
					field := uint32(v[0])<<16 | uint32(v[1])<<8 | uint32(v[2])
					if hooked {
						c.Count("abs_send_time_checked_against_injected_clock", 1)
						if want := ntpField(clockNs); field != want {
							c.Fail("C06/packetize/abs-send-time-value", fmt.Sprintf("abs-send-time %#06x, the send instant %d ns maps to %#06x", field, clockNs, want), wit())
							return
						}
					} else {
						c.Count("abs_send_time_checked_by_bracketing", 1)
						lo, hi := ntpField(before.UnixNano()), ntpField(after.UnixNano())
						if (field-lo)&0xFFFFFF > (hi-lo)&0xFFFFFF {
							c.Fail("C06/packetize/abs-send-time-value", fmt.Sprintf("abs-send-time %#06x outside [%#06x, %#06x] read around the call", field, lo, hi), wit())
							return
						}
					}
				}
				// serialisation
				var wire []byte
				var err error
				var size int
				if pv, st := fw.Guard(func() {
					size = pkt.MarshalSize()
					wire, err = pkt.Marshal()
				}); pv != nil {
					c.Fail("C06/packetize/marshal-panics/"+fw.PanicFunc(st), fmt.Sprintf("Marshal of a returned packet panicked: %v", pv), wit("stack", st))
					return
				}
				if err != nil {
					c.Fail("C06/packetize/does-not-marshal", "a returned packet cannot be serialised: "+err.Error(), wit())
					return
				}
				if honoured && size > int(mtu) {
					sig := "C06/packetize/exceeds-mtu"
					if wantExt && size-int(mtu) <= 8 && len(frags[k]) > gotBudget-8 {
						sig += "/last-packet-with-abs-send-time-budget-ignores-extension"
					}
					c.Fail(sig, fmt.Sprintf("packet %d serialises to %d bytes, MTU %d (fragment %d bytes, budget handed to the payloader %d)", k, size, mtu, len(frags[k]), gotBudget), wit())
					return
				}
				var back rtp.Packet
				if err := back.Unmarshal(wire); err != nil {
					c.Fail("C06/packetize/does-not-parse-back", "a serialised packet does not parse: "+err.Error(), wit("wire", fw.Trunc(fw.Hex(wire), 120)))
					return
				}
				if len(history) < 24 {
					history = append(history, kept{pkt, append([]byte(nil), wire...), op})
				}
				if d := ref.Equal(gen.FromLib(pkt), gen.FromLib(&back)); d != "" || back.Padding != pkt.Padding {
					c.Fail("C06/packetize/parses-back-different-in-"+sanitize(d), "a serialised packet parses back different in "+d, wit("wire", fw.Trunc(fw.Hex(wire), 120)))
					return
				}
			}
			ts += samples
		}
		if !recheck() {
			return
		}
	}
	kinds := ""
	for k, t := range trace {
		if k < 4 {
			kinds += t[:1]
		}
	}
	if maxFrags >= 2 || didPadding {
		fc := "2"
		if maxFrags > 2 {
			fc = "n"
		} else if maxFrags < 2 {
			fc = "p"
		}
		c.Shapef("%s|mtu%s|abs%v|%s|f%s|fixed%v", c06PayloaderNames[pk], lenClassS(int(mtu)), absID != 0, kinds, fc, fixed)
	}
	if c.WantSample() {
		c.Sample(map[string]any{"payloader": c06PayloaderNames[pk], "mtu": mtu, "abs_send_time_id": absID, "ops": trace, "clock_hook": hooked})
	}
}

// c06Clock: one packetizer, many Packetize calls, a clock that behaves like a clock - it advances by nanoseconds, field units,
// milliseconds, seconds, hours, stands still, and now and then steps back a little (NTP adjustments). Every stamp must be the
// 24-bit field of THAT call's instant: nothing may be carried over from an earlier reading.
func c06Clock(c *fw.Ctx, i int) {
	r := c.R
	id := r.Range(1, 14)
	p := rtp.NewPacketizer(1200, 96, 0x1234, &codecs.G711Payloader{}, rtp.NewFixedSequencer(1), 8000)
	p.EnableAbsSendTime(id)
	ns, _ := c18Instant(r, int64(400*3600e9))
	clockNs := ns
	if !hookSetClock(p, func() time.Time { return time.Unix(0, clockNs) }) {
		c.Count("skipped_no_clock_hook", 1)
		return
	}
	var steps []int64
	for k := 0; k < 150; k++ {
		var step int64
		switch r.Intn(12) {
		case 0:
			step = 0
		case 1:
			step = int64(r.Pick(1, 2, 3814, 3815, 3816, 7629, 7630))
		case 2:
			step = int64(r.Intn(20000))
		case 3, 4, 5:
			step = int64(r.Intn(40e6)) // frame intervals
		case 6:
			step = int64(r.Intn(2e9))
		case 7:
			step = int64(r.Pick(1e9, 64e9, 63999996186, 3600e9, 3600e9+1, 3599e9)) + int64(r.Range(-3, 3))
		case 8:
			step = -int64(r.Pick(1, 3815, 1e6, 499e6, 501e6, 2e9)) // the clock is set back
		default:
			step = int64(r.Intn(1e9))
		}
		if clockNs+step < 0 {
			step = 0
		}
		clockNs += step
		if len(steps) < 24 {
			steps = append(steps, step)
		}
		var pkts []*rtp.Packet
		if pv, st := fw.Guard(func() { pkts = p.Packetize([]byte{1, 2, 3}, 160) }); pv != nil {
			c.Fail("C06/panic/Packetize/"+fw.PanicFunc(st), fmt.Sprintf("Packetize panicked: %v", pv), fw.W("stack", st))
			return
		}
		c.Evals(1)
		if len(pkts) != 1 {
			c.Fail("C06/packetize/packet-count", fmt.Sprintf("%d packets for one small fragment", len(pkts)), fw.W("call", k))
			return
		}
		v := pkts[0].GetExtension(uint8(id))
		if len(v) != 3 {
			c.Fail("C06/packetize/abs-send-time-element", fmt.Sprintf("abs-send-time value %s", fw.Hex(v)), fw.W("call", k))
			return
		}
		field := uint32(v[0])<<16 | uint32(v[1])<<8 | uint32(v[2])
		if want := ntpField(clockNs); field != want {
			cls := "clock-advanced"
			if step < 0 {
				cls = "clock-stepped-back"
			} else if step == 0 {
				cls = "clock-stood-still"
			}
			c.Fail("C06/packetize/abs-send-time-value/after-earlier-calls/"+cls, fmt.Sprintf("call %d: abs-send-time %#06x, the send instant %d ns maps to %#06x (the clock moved by %d ns since the previous call)", k, field, clockNs, want, step),
				fw.W("first_instant_ns", ns, "first_steps_ns", steps, "call", k))
			return
		}
		c.Count("abs_send_time_checked_against_injected_clock", 1)
	}
	c.Shapef("clock-walk|%d", (ns/1e9)%8)
	if i == 0 {
		c.Sample(map[string]any{"first_instant_ns": ns, "first_steps_ns": steps, "calls": 150})
	}
}

// c06Shared: two packetizers, one sequencer, two goroutines.
func c06Shared(c *fw.Ctx, i int) {
	r := c.R
	start := uint16(65536 - r.Range(1, 200))
	seq := rtp.NewFixedSequencer(start)
	var wg sync.WaitGroup
	got := make([][]uint16, 2)
	for g := 0; g < 2; g++ {
		wg.Add(1)
		p := rtp.NewPacketizer(uint16(r.Range(64, 300)), 96, uint32(g), &codecs.G711Payloader{}, seq, 8000)
		ins := [][]byte{}
		for k := 0; k < 20; k++ {
			ins = append(ins, r.Bytes(r.Range(1, 900)))
		}
		go func(g int) {
			defer wg.Done()
			for k, in := range ins {
				if k%5 == 4 {
					for _, pkt := range p.GeneratePadding(2) {
						got[g] = append(got[g], pkt.SequenceNumber)
					}
					continue
				}
				for _, pkt := range p.Packetize(in, 160) {
					got[g] = append(got[g], pkt.SequenceNumber)
				}
			}
		}(g)
	}
	wg.Wait()
	c.Evals(40)
	var all []int
	for g := 0; g < 2; g++ {
		prev := -1
		for _, v := range got[g] {
			e := int(uint16(v - start)) // offset from start, no second wrap within < 65536 numbers
			if e <= prev {
				c.Fail("C06/shared-sequencer/not-increasing-per-packetizer", "one packetizer saw sequence numbers going backwards", fw.W("start", start))
				return
			}
			prev = e
			all = append(all, e)
		}
	}
	sort.Ints(all)
	for k, e := range all {
		if e != k {
			c.Fail("C06/shared-sequencer/gap-or-duplicate", fmt.Sprintf("the union of issued sequence numbers is not gap-free at offset %d (got %d)", k, e), fw.W("start", start, "total", len(all)))
			return
		}
	}
	c.Count("shared_sequencer_runs_gap_free", 1)
	c.Shapef("shared|n%d", len(all)/20)
	if c.WantSample() {
		c.Sample(map[string]any{"start": start, "packets": len(all)})
	}
}
