package props

import (
	"bytes"
	"fmt"

	"github.com/pion/rtp/codecs"
	"github.com/pion/rtp/codecs/vp9"

	"verifharness/fw"
	"verifharness/ref"
)

func init() {
	fw.Register(&fw.Prop{
		ID:    "C12",
		Level: "exploration",
		Rule: "frames = bit-written VP9 uncompressed headers (profiles 0-3 incl. the reserved bit of profile 3, key / non-key / show-existing, sync code, colour " +
			"config per profile with all 8 colour spaces incl. RGB, reserved colour bit, 16-bit width-1/height-1 over {0, 1, 255, 256, 65534, random}) followed " +
			"by 0..3*MTU random bytes; payloader instances (flexible / non-flexible, start picture ids incl. 0x7FFE, 0x7FFF and values with bit 15 set) are fed " +
			"2-6 consecutive frames, every packet parsed by an independent RFC 9628 descriptor parser and by VP9Packet; the header parser is judged directly on " +
			"every generated header and on every prefix; decoder: descriptors from an independent encoder over I (7/15 bit), P, L (TID, U, SID 0-4, D, TL0PICIDX " +
			"iff F=0), F, 1-3 P_DIFF, V (N_S 0-7, Y, G, N_G, R 0-3), B/E/Z and every truncation; non-trivial = frames needing >= 2 packets or key frames; every " +
			"decoder case with at least one optional field; distinct = (mode, frame kind, profile, colour space, MTU class, fragment class) / descriptor flag byte x SS shape",
		Floor:     300,
		Technique: "runtime monitor: concatenation oracle + shadow picture-id counter + independent VP9 bit-writer for headers + independent RFC 9628 descriptor encoder/parser",
		Assumptions: []string{
			"frame width 65536 (width-1 = 65535) is excluded for the scalability-structure clause: it does not fit the 16-bit SS field; the header parser is still judged on it",
			"show_existing_frame frames are judged for losslessness, B/E and picture id only",
			"a complete descriptor is accepted whatever follows it, also when no payload byte follows",
		},
		Strata: []fw.Stratum{
			{Name: "payloader-instances", N: fw.Const(150000, 4000000), Run: c12Pay},
			{Name: "payloader-long-runs", N: fw.Const(6, 100), Run: c12Long},
			{Name: "header-parser", N: fw.Const(300000, 8000000), Run: c12Hdr},
			{Name: "descriptor-decoder", N: fw.Const(600000, 15000000), Run: c12Dec},
		},
	})
}

var c12Dims = []uint16{0, 1, 255, 256, 65534}

func c12Header(r *fw.Rand, allowMaxDim bool) *ref.VP9Header {
	h := &ref.VP9Header{}
	h.Profile = uint8(r.Intn(4))
	h.ReservedAfterProf = r.Chance(1, 4)
	switch r.Intn(8) {
	case 0:
		h.ShowExisting = true
		h.FrameToShow = uint8(r.Intn(8))
	case 1, 2, 3:
		h.NonKey = true
	}
	h.ShowFrame, h.ErrorRes = r.Bool(), r.Bool()
	if h.NonKey && !h.ShowFrame && r.Bool() {
		// a hidden intra-only frame: sync code, colour configuration and frame size of its own - and still a non-key frame
		h.IntraOnly, h.ResetContext, h.RefreshFlags = true, uint8(r.Intn(4)), uint8(r.Intn(256))
	}
	h.TenOrTwelve = r.Bool()
	h.ColorSpace = uint8(r.Intn(8))
	h.ColorRange = r.Bool()
	h.SubX, h.SubY = r.Bool(), r.Bool()
	h.ReservedColor = r.Chance(1, 4)
	dim := func() uint16 {
		if r.Chance(2, 3) {
			return c12Dims[r.Intn(len(c12Dims))]
		}
		if allowMaxDim && r.Chance(1, 10) {
			return 65535
		}
		return uint16(r.Intn(65535))
	}
	h.WidthMinus1, h.HeightMinus1 = dim(), dim()
	return h
}

func c12DescribeHeader(h *ref.VP9Header) map[string]any {
	kind := "key"
	if h.ShowExisting {
		kind = "show-existing"
	} else if h.NonKey {
		kind = "non-key"
	}
	return map[string]any{"kind": kind, "profile": h.Profile, "colour_space": h.ColorSpace, "ten_or_twelve": h.TenOrTwelve, "range": h.ColorRange,
		"sub_x": h.SubX, "sub_y": h.SubY, "width_minus_1": h.WidthMinus1, "height_minus_1": h.HeightMinus1, "reserved_bits": []bool{h.ReservedAfterProf, h.ReservedColor}}
}

func c12Pay(c *fw.Ctx, i int) {
	r := c.R
	flex := r.Bool()
	start := uint16(r.Pick(0, 1, 0x7FFE, 0x7FFF, 0x8000, 0x8005, 0xFFFF, 0xFFFE, r.Intn(65536)))
	p0 := &codecs.VP9Payloader{FlexibleMode: flex, InitialPictureIDFn: func() uint16 { return start }}
	insts := []*codecs.VP9Payloader{p0}
	var kpPay keeper // every packet list ever returned, kept as returned
	var streamRx codecs.VP9Packet
	nframes := r.Range(2, 6)
	for k := 0; k < nframes; k++ {
		if k > 0 && r.Chance(1, 6) {
			// FlexibleMode is an exported field: the application switches mode between two frames
			flex = !flex
			for _, q := range insts {
				q.FlexibleMode = flex
			}
			c.Count("mode_switched_in_mid_stream", 1)
		}
		if k > 0 && len(insts) == 1 && r.Chance(1, 12) {
			// the payloader is a plain struct: copied by value in mid-stream; the copy runs on as an instance of its own
			cp := *p0
			insts = append(insts, &cp)
			c.Count("payloaders_copied_by_value_in_mid_stream", 1)
		}
		h := c12Header(r, false)
		hb, _ := h.Encode()
		minMTU := 4
		if !flex {
			minMTU = 12
		}
		mtu := r.Pick(minMTU, minMTU+1, minMTU+2, 20, 100, 1200, r.Range(minMTU, 60), r.Range(minMTU, 1500))
		if r.Chance(1, 150) {
			mtu = r.Pick(32767, 32768, 32769, 40000, 65534, 65535) // the MTU is a uint16: values with bit 15 set are ordinary
		}
		extra := r.Pick(0, 1, mtu-len(hb)-3, mtu-len(hb)-11, mtu, 2*mtu, r.Range(0, 3*mtu))
		if extra < 0 {
			extra = 0
		}
		if (mtu >= 1000 && r.Chance(1, 40)) || (mtu >= 64 && r.Chance(1, 300)) || r.Chance(1, 8000) {
			extra = r.Pick(65535, 65536, 65537, 70000, 131073) // frames beyond 64 KiB (more than 65535 packets at tiny MTUs)
		}
		if !flex && mtu == minMTU && r.Chance(1, 400) {
			extra = 9*65536 + r.Range(0, 40) // non-flexible mode at MTU 12 carries 9 bytes per packet: more than 65536 packets
		}
		frame := append(append([]byte{}, hb...), r.Bytes(extra)...)
		if flex && r.Bool() {
			frame = r.Bytes(r.Range(1, 3*mtu)) // flexible mode does not look at the frame
		}
		if len(frame) >= 4 && len(frame) < 60000 && r.Chance(1, 8) {
			// a VP9 superframe: the frame bytes are followed by an index (marker, the sizes of the sub-frames, marker again) that
			// is consistent with them - to the RTP payload format it is frame data like any other
			nsub := r.Range(2, 4)
			if nsub > len(frame) {
				nsub = 2
			}
			sizes := make([]int, nsub)
			rest := len(frame)
			for q := 0; q < nsub-1; q++ {
				sizes[q] = r.Range(1, rest-(nsub-1-q))
				rest -= sizes[q]
			}
			sizes[nsub-1] = rest
			mag := 2
			if len(frame) < 256 && r.Bool() {
				mag = 1
			}
			marker := byte(0xC0 | (mag-1)<<3 | (nsub - 1))
			frame = append(frame, marker)
			for _, sz := range sizes {
				for b := 0; b < mag; b++ {
					frame = append(frame, byte(sz>>(8*uint(b))))
				}
			}
			frame = append(frame, marker)
			c.Count("frames_that_are_vp9_superframes", 1)
		}
		for _, p := range insts {
			var pkts [][]byte
			if what, ch := kpPay.changed(); ch {
				c.Fail("C12/payloader/earlier-result-changed-by-a-later-call", "a later Payload call changed "+what, fw.W("mtu", mtu))
				return
			}
			if pv, st := fw.Guard(func() { pkts = p.Payload(uint16(mtu), frame) }); pv != nil {
				c.Fail("C12/payloader/panic/"+fw.PanicFunc(st), fmt.Sprintf("VP9Payloader.Payload panicked: %v", pv), fw.W("mtu", mtu, "frame", fw.Trunc(fw.Hex(frame), 200), "stack", st))
				return
			}
			c.Evals(1)
			if len(pkts) <= 64 {
				kpPay.addList(fmt.Sprintf("the packet list returned for frame %d", k), pkts)
			}
			if what, ch := kpPay.changed(); ch {
				c.Fail("C12/payloader/earlier-result-changed-by-a-later-call", "a later Payload call changed "+what, fw.W("mtu", mtu))
				return
			}
			wantID := (start&0x7FFF + uint16(k)) & 0x7FFF
			wit := func(extra ...any) map[string]any {
				m := fw.W("mode", map[bool]string{true: "flexible", false: "non-flexible"}[flex], "start_picture_id", start, "frame_index_on_instance", k, "expected_picture_id", wantID,
					"mtu", mtu, "header", c12DescribeHeader(h), "frame", fw.Trunc(fw.Hex(frame), 120), "packets", fw.HexList(truncList(pkts, 32)))
				for q := 0; q+1 < len(extra); q += 2 {
					m[fmt.Sprint(extra[q])] = extra[q+1]
				}
				return m
			}
			if len(pkts) == 0 {
				c.Fail("C12/payloader/no-packets", "no packet for a well-formed frame and a sufficient MTU", wit())
				return
			}
			key := !flex && !h.NonKey && !h.ShowExisting
			var cat []byte
			for j, pk := range pkts {
				if len(pk) > mtu {
					c.Fail("C12/payloader/packet-exceeds-mtu", fmt.Sprintf("packet %d has %d bytes, MTU %d", j, len(pk), mtu), wit())
					return
				}
				d, n, ok := ref.VP9Parse(pk)
				if !ok {
					c.Fail("C12/payloader/descriptor-malformed", fmt.Sprintf("packet %d: descriptor cut short", j), wit())
					return
				}
				first, last := j == 0, j == len(pkts)-1
				if d.B != first || d.E != last {
					c.Fail("C12/payloader/b-e-bits", fmt.Sprintf("packet %d of %d: B=%v E=%v", j, len(pkts), d.B, d.E), wit())
					return
				}
				if !d.I || !d.M {
					c.Fail("C12/payloader/picture-id-form", fmt.Sprintf("packet %d: I=%v M=%v, a 15-bit picture id is required", j, d.I, d.M), wit())
					return
				}
				if d.PictureID != wantID {
					sig := "C12/payloader/picture-id-value"
					if start >= 0x8000 {
						sig += "/start-with-bit-15"
					} else if wantID < start&0x7FFF {
						sig += "/after-wrap"
					}
					c.Fail(sig, fmt.Sprintf("packet %d carries picture id %d, expected %d", j, d.PictureID, wantID), wit())
					return
				}
				if d.F != flex {
					c.Fail("C12/payloader/f-bit", fmt.Sprintf("packet %d: F=%v in %v mode", j, d.F, flex), wit())
					return
				}
				if !flex && !h.ShowExisting {
					if d.P != h.NonKey {
						c.Fail("C12/payloader/p-bit", fmt.Sprintf("packet %d: P=%v for a frame with frame_type non-key=%v", j, d.P, h.NonKey), wit())
						return
					}
					wantV := key && first
					if d.V != wantV {
						c.Fail("C12/payloader/ss-presence", fmt.Sprintf("packet %d of %d: V=%v (key frame: %v)", j, len(pkts), d.V, key), wit())
						return
					}
					if wantV {
						if !d.Y || len(d.W) != 1 || len(d.H) != 1 || d.NS != 0 {
							c.Fail("C12/payloader/ss-shape", fmt.Sprintf("scalability structure: N_S=%d Y=%v", d.NS, d.Y), wit())
							return
						}
						if d.W[0] != h.WidthMinus1+1 || d.H[0] != h.HeightMinus1+1 {
							c.Fail(fmt.Sprintf("C12/payloader/ss-resolution-differs/profile-%d/colour-space-%d", h.Profile, h.ColorSpace),
								fmt.Sprintf("scalability structure says %dx%d, the uncompressed header codes %dx%d", d.W[0], d.H[0], uint32(h.WidthMinus1)+1, uint32(h.HeightMinus1)+1), wit())
							return
						}
						c.Count("key_frames_with_matching_ss", 1)
					}
				}
				// VP9Packet must agree
				var vp codecs.VP9Packet
				var body []byte
				var err error
				var head bool
				if pv, st := fw.Guard(func() {
					body, err = vp.Unmarshal(pk)
					head = vp.IsPartitionHead(pk)
				}); pv != nil {
					c.Fail("C12/decoder/panic/"+fw.PanicFunc(st), fmt.Sprintf("VP9Packet panicked on payloader output: %v", pv), wit("stack", st))
					return
				}
				if err != nil {
					c.Fail("C12/roundtrip/vp9packet-rejects-payloader-output", err.Error(), wit())
					return
				}
				if !bytes.Equal(body, pk[n:]) {
					c.Fail("C12/roundtrip/vp9packet-payload-differs", fmt.Sprintf("VP9Packet returns %d bytes, the descriptor is %d bytes long", len(body), n), wit())
					return
				}
				{
					// the same packet through the ONE VP9Packet a receiving loop keeps: it reads like the fresh decode
					var sb []byte
					var serr error
					fw.Guard(func() { sb, serr = streamRx.Unmarshal(fw.Exact(pk)) })
					if serr != nil || !bytes.Equal(sb, body) || (instVP9{&streamRx}).Meta() != (instVP9{&vp}).Meta() {
						c.Fail("C12/roundtrip/reused-vp9packet-differs-from-a-fresh-one", "a VP9Packet that decoded the earlier packets of the stream reads this packet differently from a fresh one",
							wit("reused", fw.Trunc((instVP9{&streamRx}).Meta(), 400), "fresh", fw.Trunc((instVP9{&vp}).Meta(), 400)))
						return
					}
				}
				if head != first || vp.B != first || vp.E != last || vp.PictureID != wantID {
					c.Fail("C12/roundtrip/vp9packet-fields", fmt.Sprintf("VP9Packet: head=%v B=%v E=%v PictureID=%d", head, vp.B, vp.E, vp.PictureID), wit())
					return
				}
				cat = append(cat, body...)
			}
			if !bytes.Equal(cat, frame) {
				c.Fail("C12/payloader/concatenation-differs", fmt.Sprintf("packet payloads concatenate to %d bytes, the frame has %d", len(cat), len(frame)), wit())
				return
			}
			c.Count("frames_lossless", 1)
			if len(pkts) >= 2 || key {
				fc := "1"
				if len(pkts) == 2 {
					fc = "2"
				} else if len(pkts) > 2 {
					fc = "n"
				}
				kind := "k"
				if h.ShowExisting {
					kind = "s"
				} else if h.NonKey {
					kind = "n"
				}
				c.Shapef("pay|flex%v|%s|p%d|cs%d|mtu%s|f%s|wrap%v", flex, kind, h.Profile, h.ColorSpace, lenClassS(mtu), fc, wantID < 4 || wantID > 0x7FFC)
			}
			if k == 0 && c.WantSample() {
				c.Sample(map[string]any{"mode_flexible": flex, "start_picture_id": start, "frames": nframes, "first_frame_header": c12DescribeHeader(h), "first_frame_packets": len(pkts)})
			}
		}
	}
}

func c12Hdr(c *fw.Ctx, i int) {
	r := c.R
	h := c12Header(r, true)
	hb, nbits := h.Encode()
	if h.NonKey && h.IntraOnly {
		// the fields the property speaks of end with error_resilient_mode for a non-key frame: what an intra-only frame carries after
		// them is payload as far as the parser is concerned, and an input may end anywhere inside it
		plain := *h
		plain.IntraOnly = false
		_, nbits = plain.Encode()
	}
	full := append(append([]byte{}, hb...), r.Bytes(r.Intn(4))...)
	check := func(in []byte, complete bool) bool {
		var got vp9.Header
		var err error
		if pv, st := fw.Guard(func() { err = got.Unmarshal(in) }); pv != nil {
			c.Fail("C12/header/panic/"+fw.PanicFunc(st), fmt.Sprintf("vp9.Header.Unmarshal panicked: %v", pv), fw.W("input", fw.Hex(in), "stack", st))
			return false
		}
		c.Evals(1)
		wit := fw.W("input", fw.Hex(in), "header", c12DescribeHeader(h), "header_bits", nbits)
		if err != nil {
			if complete {
				c.Fail(fmt.Sprintf("C12/header/rejects-well-formed/profile-%d/colour-space-%d", h.Profile, h.ColorSpace), "a well-formed uncompressed header is rejected: "+err.Error(), wit)
				return false
			}
			return true
		}
		if !complete && len(in)*8 < nbits {
			c.Fail("C12/header/accepts-truncated", fmt.Sprintf("%d header bits, accepted with only %d bits of input", nbits, len(in)*8), wit)
			return false
		}
		bad := ""
		switch {
		case got.Profile != h.Profile:
			bad = "Profile"
		case got.ShowExistingFrame != h.ShowExisting:
			bad = "ShowExistingFrame"
		case h.ShowExisting && got.FrameToShowMapIdx != h.FrameToShow:
			bad = "FrameToShowMapIdx"
		case !h.ShowExisting && (got.NonKeyFrame != h.NonKey || got.ShowFrame != h.ShowFrame || got.ErrorResilientMode != h.ErrorRes):
			bad = "frame-type-bits"
		}
		if bad == "" && !h.ShowExisting && !h.NonKey {
			sx, sy := h.ExpSub()
			switch {
			case got.ColorConfig == nil || got.FrameSize == nil:
				bad = "missing-colour-config-or-size"
			case got.ColorConfig.ColorSpace != h.ColorSpace:
				bad = "ColorSpace"
			case got.ColorConfig.BitDepth != h.BitDepth() || (h.Profile >= 2 && got.ColorConfig.TenOrTwelveBit != h.TenOrTwelve):
				bad = "BitDepth"
			case got.ColorConfig.ColorRange != h.ExpRange():
				bad = "ColorRange"
			case (h.ColorSpace != 7 || h.Profile == 1 || h.Profile == 3) && (got.ColorConfig.SubsamplingX != sx || got.ColorConfig.SubsamplingY != sy):
				bad = "Subsampling"
			case got.FrameSize.FrameWidthMinus1 != h.WidthMinus1 || got.FrameSize.FrameHeightMinus1 != h.HeightMinus1:
				bad = "FrameSize"
			case got.Width() != h.WidthMinus1+1 || got.Height() != h.HeightMinus1+1:
				bad = "Width/Height"
			}
		}
		if bad != "" {
			c.Fail(fmt.Sprintf("C12/header/field-differs/%s/profile-%d/colour-space-%d", bad, h.Profile, h.ColorSpace), "vp9.Header decodes "+bad+" differently from the coded value",
				fw.W("input", fw.Hex(in), "header", c12DescribeHeader(h), "decoded", fmt.Sprintf("%+v cc=%+v fs=%+v", got, got.ColorConfig, got.FrameSize)))
			return false
		}
		return true
	}
	if !check(full, true) {
		return
	}
	for cut := 0; cut < len(hb); cut++ {
		if !check(full[:cut], false) {
			return
		}
	}
	c.Count("headers_parsed_exactly", 1)
	kind := "k"
	if h.ShowExisting {
		kind = "s"
	} else if h.NonKey {
		kind = "n"
	}
	c.Shapef("hdr|%s|p%d|cs%d|t%v|dim%v%v", kind, h.Profile, h.ColorSpace, h.TenOrTwelve, h.WidthMinus1 > 255, h.HeightMinus1 > 255)
	if c.WantSample() {
		c.Sample(map[string]any{"header": c12DescribeHeader(h), "bytes": fw.Hex(hb), "bits": nbits})
	}
}

func c12Desc(r *fw.Rand) *ref.VP9Desc {
	d := &ref.VP9Desc{I: r.Bool(), P: r.Bool(), L: r.Bool(), F: r.Bool(), B: r.Bool(), E: r.Bool(), V: r.Chance(1, 3), Z: r.Bool()}
	d.M = r.Bool()
	d.PictureID = uint16(r.Pick(0, 1, 127, 128, 0x7FFF, r.Intn(0x8000)))
	if !d.M {
		d.PictureID &= 0x7F
	}
	d.TID, d.U, d.SID, d.D = uint8(r.Intn(8)), r.Bool(), uint8(r.Intn(5)), r.Bool()
	d.TL0PICIDX = uint8(r.Pick(0, 1, 255, r.Intn(256)))
	for k := r.Range(1, 3); k > 0; k-- {
		d.PDiff = append(d.PDiff, uint8(r.Pick(0, 1, 127, r.Intn(128))))
	}
	d.NS = uint8(r.Pick(0, 0, 1, 2, 3, 4, r.Intn(8)))
	d.Y, d.G, d.SSRes = r.Bool(), r.Bool(), uint8(r.Pick(0, 0, 7, r.Intn(8)))
	for k := 0; k <= int(d.NS); k++ {
		d.W = append(d.W, uint16(r.Pick(0, 1, 640, 65535, r.Intn(65536))))
		d.H = append(d.H, uint16(r.Pick(0, 1, 480, 65535, r.Intn(65536))))
	}
	ng := r.Pick(0, 1, 2, 8, r.Range(0, 12))
	if r.Chance(1, 100) {
		ng = 255
	}
	for k := 0; k < ng; k++ {
		g := ref.VP9PG{TID: uint8(r.Intn(8)), U: r.Bool(), Res: uint8(r.Pick(0, 0, 3))}
		for q := r.Intn(4); q > 0; q-- {
			g.PDiff = append(g.PDiff, uint8(r.Intn(256)))
		}
		d.PG = append(d.PG, g)
	}
	return d
}

func c12Dec(c *fw.Ctx, i int) {
	r := c.R
	d := c12Desc(r)
	enc := d.Encode()
	if back, n, ok := ref.VP9Parse(append(append([]byte{}, enc...), 0x11)); !ok || n != len(enc) || !bytes.Equal(back.Encode(), enc) {
		c.HarnessBug("reference VP9 descriptor encoder/parser disagree on " + fw.Hex(enc))
		return
	}
	judged := d.NS <= 4
	// one receiver decoding a stream, as an application does; what it decoded earlier was copied out (struct copy) and is kept
	var stream codecs.VP9Packet
	var kp keeper
	keepStream := func(in []byte) {
		if b, err := stream.Unmarshal(fw.Exact(in)); err == nil {
			cp := stream
			kp.add("the bytes returned for an earlier packet", b)
			kp.addMeta("a VP9Packet value copied out after an earlier Unmarshal", instVP9{&cp}.Meta)
		}
	}
	defer func() {
		// another descriptor with lists of its own into the same receiver, then look at what was kept
		d2 := c12Desc(r)
		fw.Guard(func() {
			keepStream(append(d2.Encode(), 0x55))
			keepStream(append(c12Desc(r).Encode(), 0x66, 0x77))
		})
		if what, ch := kp.changed(); ch {
			c.Fail("C12/decoder/earlier-result-changed-by-a-later-call", "decoding a later packet into the same VP9Packet changed "+what, fw.W("first_descriptor", fw.Hex(enc), "later_descriptor", fw.Hex(d2.Encode())))
		}
	}()
	for _, plen := range []int{1, 0, 5} {
		in := fw.Exact(append(append([]byte{}, enc...), r.Bytes(plen)...))
		var vp codecs.VP9Packet
		var body []byte
		var err error
		if pv, st := fw.Guard(func() { body, err = vp.Unmarshal(in); keepStream(in) }); pv != nil {
			c.Fail("C12/decoder/panic/"+fw.PanicFunc(st), fmt.Sprintf("VP9Packet.Unmarshal panicked: %v", pv), fw.W("input", fw.Hex(in), "stack", st))
			return
		}
		c.Evals(1)
		wit := fw.W("input", fw.Hex(in), "descriptor_len", len(enc), "payload_len", plen, "encoded", fmt.Sprintf("%+v", *d))
		if !judged {
			continue
		}
		if err != nil {
			npd := 0
			if d.F && d.P {
				npd = len(d.PDiff)
			}
			c.Fail(fmt.Sprintf("C12/decoder/rejects-well-formed/pdiffs-%d/v-%v/payload-bytes-%d", npd, d.V, minI(plen, 1)), "VP9Packet rejects a complete, well-formed descriptor: "+err.Error(), wit)
			return
		}
		bad := ""
		switch {
		case vp.I != d.I || vp.P != d.P || vp.L != d.L || vp.F != d.F || vp.B != d.B || vp.E != d.E || vp.V != d.V || vp.Z != d.Z:
			bad = "flag-byte"
		case d.I && vp.PictureID != d.PictureID:
			bad = "PictureID"
		case d.L && (vp.TID != d.TID || vp.U != d.U || vp.SID != d.SID || vp.D != d.D):
			bad = "layer-indices"
		case d.L && !d.F && vp.TL0PICIDX != d.TL0PICIDX:
			bad = "TL0PICIDX"
		case d.F && d.P && !bytes.Equal(vp.PDiff, d.PDiff):
			bad = "PDiff"
		}
		if bad == "" && d.V {
			switch {
			case vp.NS != d.NS || vp.Y != d.Y || vp.G != d.G:
				bad = "SS-header"
			case d.G && int(vp.NG) != len(d.PG):
				bad = "N_G"
			case !d.G && vp.NG != 0:
				bad = "N_G-without-G"
			}
			if bad == "" && d.Y {
				if len(vp.Width) != len(d.W) || len(vp.Height) != len(d.H) {
					bad = "SS-resolution-count"
				} else {
					for k := range d.W {
						if vp.Width[k] != d.W[k] || vp.Height[k] != d.H[k] {
							bad = "SS-resolution"
						}
					}
				}
			}
			if bad == "" && d.G {
				if len(vp.PGTID) != len(d.PG) || len(vp.PGU) != len(d.PG) || len(vp.PGPDiff) != len(d.PG) {
					bad = "PG-count"
				} else {
					for k, g := range d.PG {
						if vp.PGTID[k] != g.TID || vp.PGU[k] != g.U || !bytes.Equal(vp.PGPDiff[k], g.PDiff) {
							bad = "PG-entry"
						}
					}
				}
			}
		}
		if bad != "" {
			c.Fail("C12/decoder/field-differs/"+bad, "VP9Packet decodes "+bad+" differently from the encoded value", fw.W("input", fw.Hex(in), "encoded", fmt.Sprintf("%+v", *d), "decoded", fmt.Sprintf("%+v", vp)))
			return
		}
		if !bytes.Equal(body, in[len(enc):]) || !bytes.Equal(vp.Payload, in[len(enc):]) {
			c.Fail("C12/decoder/payload-differs", fmt.Sprintf("returned %d bytes, %d follow the descriptor", len(body), plen), wit)
			return
		}
		{
			// the receiver's zero-allocation setting may trim what is stored, never what "the bytes after the descriptor" are
			var z codecs.VP9Packet
			z.SetZeroAllocation(true)
			var zb []byte
			var zerr error
			if pv, st := fw.Guard(func() { zb, zerr = z.Unmarshal(fw.Exact(in)) }); pv != nil {
				c.Fail("C12/decoder/panic/"+fw.PanicFunc(st), fmt.Sprintf("VP9Packet.Unmarshal (zero-allocation) panicked: %v", pv), fw.W("input", fw.Hex(in), "stack", st))
				return
			}
			if zerr != nil || !bytes.Equal(zb, in[len(enc):]) {
				c.Fail("C12/decoder/zero-allocation-receiver/payload-differs", fmt.Sprintf("a zero-allocation VP9Packet returns %d bytes (err %v), %d follow the descriptor", len(zb), zerr, plen), wit)
				return
			}
		}
		if head := (&codecs.VP9Packet{}).IsPartitionHead(in); head != d.B {
			c.Fail("C12/ispartitionhead/differs-from-b-bit", fmt.Sprintf("IsPartitionHead = %v for a descriptor with B=%v (first octet %#02x)", head, d.B, in[0]), wit)
			return
		}
		c.Count("descriptors_decoded_exactly", 1)
	}
	// truncations strictly inside the descriptor must be rejected (and never panic)
	for cut := 0; cut < len(enc); cut++ {
		if len(enc) > 80 && cut > 12 && cut < len(enc)-12 && cut%7 != 0 {
			continue
		}
		var vp codecs.VP9Packet
		var err error
		in := fw.Exact(enc[:cut])
		if pv, st := fw.Guard(func() { _, err = vp.Unmarshal(in) }); pv != nil {
			c.Fail("C12/decoder/panic/"+fw.PanicFunc(st), fmt.Sprintf("VP9Packet.Unmarshal panicked on a truncated descriptor: %v", pv), fw.W("input", fw.Hex(in), "stack", st))
			return
		}
		c.Evals(1)
		if err == nil && judged {
			c.Fail("C12/decoder/accepts-truncated-descriptor", fmt.Sprintf("a descriptor of %d bytes cut to %d bytes is accepted", len(enc), cut), fw.W("input", fw.Hex(in), "full_descriptor", fw.Hex(enc)))
			return
		}
	}
	if d.I || d.L || d.V || (d.F && d.P) {
		ssShape := "-"
		if d.V {
			ssShape = fmt.Sprintf("ns%d y%v g%v ng%s", d.NS, d.Y, d.G, lenClassS(len(d.PG)))
		}
		npd := 0
		if d.F && d.P {
			npd = len(d.PDiff)
		}
		c.Shapef("dec|%02x|m%v|pd%d|%s", enc[0], d.M, npd, ssShape)
	}
	if c.WantSample() {
		c.Sample(map[string]any{"descriptor": fw.Trunc(fw.Hex(enc), 120), "fields": fmt.Sprintf("%+v", *d)})
	}
}

// c12Long: one instance, 70 000 tiny frames: the 15-bit picture id must go
// through two complete wraps with the library's own counter.
func c12Long(c *fw.Ctx, i int) {
	r := c.R
	flex := i%2 == 0
	start := uint16(r.Pick(0, 0x7FFF, 0x7FFE, r.Intn(0x8000)))
	p := &codecs.VP9Payloader{FlexibleMode: flex, InitialPictureIDFn: func() uint16 { return start }}
	frame := []byte{0x86, 0x00} // profile 0 non-key frame header start (parsable in non-flexible mode)
	for k := 0; k < 70000; k++ {
		var pkts [][]byte
		if pv, st := fw.Guard(func() { pkts = p.Payload(20, frame) }); pv != nil {
			c.Fail("C12/payloader/panic/"+fw.PanicFunc(st), fmt.Sprintf("VP9Payloader.Payload panicked: %v", pv), fw.W("frame_index", k, "stack", st))
			return
		}
		want := uint16((int(start) + k) % 32768)
		if len(pkts) != 1 {
			c.Fail("C12/payloader/no-packets", fmt.Sprintf("frame %d: %d packets", k, len(pkts)), fw.W("frame_index", k))
			return
		}
		d, _, ok := ref.VP9Parse(pkts[0])
		if !ok || !d.I || !d.M || d.PictureID != want {
			got := -1
			if ok {
				got = int(d.PictureID)
			}
			c.Fail("C12/payloader/picture-id-value/long-run", fmt.Sprintf("frame %d on one instance (start %d) carries picture id %d, expected %d", k, start, got, want), fw.W("frame_index", k, "start", start, "packet", fw.Hex(pkts[0])))
			return
		}
	}
	c.Evals(70000)
	c.Count("instances_crossing_two_15bit_wraps", 1)
	c.Shapef("long|flex%v|start%d", flex, start>>12)
	c.Sample(map[string]any{"mode_flexible": flex, "start_picture_id": start, "frames": 70000})
}
