// Package props registers one monitor set per property.
package props

import (
	"bytes"
	"fmt"

	"github.com/pion/rtp"

	"verifharness/fw"
	"verifharness/gen"
	"verifharness/ref"
)

func init() {
	fw.Register(&fw.Prop{
		ID:    "C01",
		Level: "exploration",
		Rule: "cases = well-formed Packet/Header values built through the public API (preset profile + SetExtension); first the full cross product of " +
			"(CSRC class x extension class x payload class x padding class), then seeded random fill; a case is non-trivial when it has at least one " +
			"variable-length part (CSRC, extension, payload or padding); distinct = distinct shape keys (version, #CSRC, ext kind, #elements, min/max value " +
			"length class, block alignment mod 4, payload length class, padding class)",
		Floor:     300,
		Technique: "runtime monitor: round-trip oracle over generated packets, recover()-guarded, independent RFC decoder as diagnostic",
		Assumptions: []string{
			"the generator covers the stated domain by classes, not exhaustively",
			"equality treats nil and empty slices alike and ignores ExtensionProfile when Extension is false",
		},
		Strata: []fw.Stratum{
			{Name: "packet-roundtrip", N: fw.Const(2000000, 16000000), Run: c01Packet},
			{Name: "header-roundtrip", N: fw.Const(1000000, 8000000), Run: c01Header},
		},
	})
}

// refDiag classifies a wire image produced by the library with the
// independent decoder: which side of the round trip broke.
func refDiag(wire []byte, want *ref.Packet) string {
	got, _, err := ref.Decode(wire)
	if err != nil {
		return "encoder(reference decoder rejects the bytes)"
	}
	if d := ref.Equal(want, got); d != "" {
		return "encoder(reference decoder reads a different " + d + ")"
	}
	return "decoder(bytes are a correct encoding)"
}

// c01Sig builds a narrow signature for a round-trip failure.
func c01Sig(stage string, p *ref.Packet, detail string) string {
	kind := []string{"noext", "onebyte", "twobyte", "legacy"}[p.ExtKind]
	return fmt.Sprintf("C01/%s/%s/%s", stage, kind, detail)
}

// flushClass describes whether the extension block ends flush with the end of
// the buffer (no payload, no padding, no fill) - the situation of defect D1.
func flushClass(p *ref.Packet, wire []byte, headerOnly bool) string {
	if p.ExtKind != ref.ExtOneByte && p.ExtKind != ref.ExtTwoByte {
		return "na"
	}
	if len(p.Elems) == 0 {
		return "noelem"
	}
	sz := 0
	for _, e := range p.Elems {
		sz += len(e.Val) + 1
		if p.ExtKind == ref.ExtTwoByte {
			sz++
		}
	}
	if sz%4 == 0 && (headerOnly || (len(p.Payload) == 0 && p.PadSize == 0)) {
		return "last-element-ends-at-end-of-buffer"
	}
	return "interior"
}

func c01Packet(c *fw.Ctx, i int) {
	cl := gen.ClassesOf(c.R, i)
	p := gen.Packet(c.R, cl)
	if gen.Nontrivial(p) {
		c.Shape(gen.ShapeKey(p))
	}
	if c.WantSample() {
		c.Sample(gen.Describe(p))
	}
	wit := func(extra ...any) map[string]any {
		m := fw.W("packet", gen.Describe(p), "reference_wire", fw.Hex(ref.Encode(p, nil)))
		for k := 0; k+1 < len(extra); k += 2 {
			m[fmt.Sprint(extra[k])] = extra[k+1]
		}
		return m
	}
	var pk *rtp.Packet
	var err error
	if pv, st := fw.Guard(func() { pk, err = gen.ToLib(p) }); pv != nil {
		c.Fail("C01/build/panic/"+fw.PanicFunc(st), fmt.Sprintf("building the packet panicked: %v", pv), wit("stack", st))
		return
	}
	if err != nil {
		c.Fail(c01Sig("build", p, "setextension-refused"), "SetExtension refused a legal element: "+err.Error(), wit())
		return
	}
	if c.R.Chance(1, 4) {
		// the deprecated exported fields hold whatever an application left in them: they are no part of the packet
		pk.PayloadOffset = c.R.Pick(-1, 1, 12, 65536, c.R.Intn(4096))
		var n int
		fw.Guard(func() { n = pk.MarshalSize() })
		pk.Raw = c.R.Bytes(c.R.Pick(n, n, n, n+1, 12, c.R.Range(0, 40)))
	}
	var wire []byte
	var size int
	pv, st := fw.Guard(func() {
		size = pk.MarshalSize()
		wire, err = pk.Marshal()
	})
	c.Evals(1)
	if pv != nil {
		c.Fail("C01/marshal/panic/"+fw.PanicFunc(st), fmt.Sprintf("Marshal panicked: %v", pv), wit("stack", st))
		return
	}
	if err != nil {
		c.Fail(c01Sig("marshal", p, "error"), "Marshal failed on a well-formed packet: "+err.Error(), wit())
		return
	}
	if len(wire) != size {
		c.Fail(c01Sig("marshal", p, "size-mismatch"), fmt.Sprintf("Marshal produced %d bytes, MarshalSize() = %d", len(wire), size), wit("wire", fw.Hex(wire)))
		return
	}
	c.Count("marshal_size_checked", 1)
	var back rtp.Packet
	pv, st = fw.Guard(func() { err = back.Unmarshal(wire) })
	c.Evals(1)
	if pv != nil {
		c.Fail("C01/unmarshal/panic/"+fw.PanicFunc(st), fmt.Sprintf("Unmarshal panicked: %v", pv), wit("wire", fw.Hex(wire), "stack", st))
		return
	}
	if err != nil {
		c.Fail(c01Sig("unmarshal", p, "rejects-own-encoding/"+flushClass(p, wire, false)), "Unmarshal rejects Marshal's output ("+refDiag(wire, p)+"): "+err.Error(),
			wit("wire", fw.Hex(wire)))
		return
	}
	got := gen.FromLib(&back)
	if d := ref.Equal(p, got); d != "" {
		c.Fail(c01Sig("roundtrip", p, "differs-in-"+d), "decoded packet differs in "+d+" ("+refDiag(wire, p)+")", wit("wire", fw.Hex(wire), "decoded", gen.Describe(got)))
		return
	}
	if back.Padding != (p.PadSize > 0) {
		c.Fail(c01Sig("roundtrip", p, "padding-flag"), "decoded padding flag differs", wit("wire", fw.Hex(wire)))
		return
	}
	// Marshal is a query: the packet it encoded is still the packet that was built, and encodes to the same bytes again
	if d := ref.Equal(p, gen.FromLib(pk)); d != "" {
		c.Fail(c01Sig("marshal", p, "changes-the-packet-in-"+d), "after Marshal the packet differs from the one that was built in "+d, wit("wire", fw.Hex(wire)))
		return
	}
	if again, err := pk.Marshal(); err != nil || !bytes.Equal(again, wire) {
		c.Fail(c01Sig("marshal", p, "second-marshal-differs"), fmt.Sprintf("marshalling the same packet again gives other bytes (err %v)", err), wit("wire", fw.Hex(wire), "again", fw.Hex(again)))
		return
	}
	c.Count("roundtrips_equal", 1)
}

func c01Header(c *fw.Ctx, i int) {
	cl := gen.ClassesOf(c.R, i)
	p := gen.Packet(c.R, cl)
	p.Payload, p.PadSize = nil, 0
	if c.R.Chance(1, 4) {
		p.PadSize = 1 // the P bit is a header field too; only the flag is encoded by Header.Marshal
	}
	if gen.Nontrivial(p) {
		c.Shape(gen.ShapeKey(p))
	}
	if c.WantSample() {
		c.Sample(gen.Describe(p))
	}
	wit := func(extra ...any) map[string]any {
		m := fw.W("header", gen.Describe(p))
		for k := 0; k+1 < len(extra); k += 2 {
			m[fmt.Sprint(extra[k])] = extra[k+1]
		}
		return m
	}
	var h rtp.Header
	var err error
	if pv, st := fw.Guard(func() { err = gen.FillHeader(&h, p) }); pv != nil {
		c.Fail("C01/hbuild/panic/"+fw.PanicFunc(st), fmt.Sprintf("building the header panicked: %v", pv), wit("stack", st))
		return
	}
	if err != nil {
		c.Fail(c01Sig("hbuild", p, "setextension-refused"), "SetExtension refused a legal element: "+err.Error(), wit())
		return
	}
	var wire []byte
	var size int
	pv, st := fw.Guard(func() {
		size = h.MarshalSize()
		wire, err = h.Marshal()
	})
	c.Evals(1)
	if pv != nil {
		c.Fail("C01/hmarshal/panic/"+fw.PanicFunc(st), fmt.Sprintf("Header.Marshal panicked: %v", pv), wit("stack", st))
		return
	}
	if err != nil {
		c.Fail(c01Sig("hmarshal", p, "error"), "Header.Marshal failed on a well-formed header: "+err.Error(), wit())
		return
	}
	if len(wire) != size {
		c.Fail(c01Sig("hmarshal", p, "size-mismatch"), fmt.Sprintf("Header.Marshal produced %d bytes, MarshalSize() = %d", len(wire), size), wit("wire", fw.Hex(wire)))
		return
	}
	var back rtp.Header
	var n int
	pv, st = fw.Guard(func() { n, err = back.Unmarshal(wire) })
	c.Evals(1)
	if pv != nil {
		c.Fail("C01/hunmarshal/panic/"+fw.PanicFunc(st), fmt.Sprintf("Header.Unmarshal panicked: %v", pv), wit("wire", fw.Hex(wire), "stack", st))
		return
	}
	if err != nil {
		c.Fail(c01Sig("hunmarshal", p, "rejects-own-encoding/"+flushClass(p, wire, true)), "Header.Unmarshal rejects Header.Marshal's output: "+err.Error(), wit("wire", fw.Hex(wire)))
		return
	}
	if n != len(wire) {
		c.Fail(c01Sig("hunmarshal", p, "reported-length"), fmt.Sprintf("Header.Unmarshal reported %d, header is %d bytes", n, len(wire)), wit("wire", fw.Hex(wire)))
		return
	}
	got := gen.FromLibHeader(&back)
	if d := ref.Equal(p.HeaderOnly(), got); d != "" {
		c.Fail(c01Sig("hroundtrip", p, "differs-in-"+d), "decoded header differs in "+d, wit("wire", fw.Hex(wire), "decoded", gen.Describe(got)))
		return
	}
	if back.Padding != (p.PadSize > 0) {
		c.Fail(c01Sig("hroundtrip", p, "padding-flag"), "decoded padding flag differs", wit("wire", fw.Hex(wire)))
		return
	}
	c.Count("header_roundtrips_equal", 1)
}
