package props

import (
	"bytes"
	"fmt"
	"unsafe"

	"github.com/pion/rtp"

	"verifharness/fw"
	"verifharness/gen"
	"verifharness/ref"
)

func init() {
	fw.Register(&fw.Prop{
		ID:    "C20",
		Level: "exploration",
		Rule: "cases = well-formed packets/headers (C01 generator incl. nil/empty slice variants and slices with spare capacity); each is cloned, compared, checked " +
			"for storage overlap by address range, then every single mutation (payload bytes, each CSRC entry, each extension value in place, SetExtension " +
			"replace/add, DelExtension, in-capacity appends) is applied to one side while the other side's snapshot (fields + Marshal bytes) is watched, in both " +
			"directions; non-trivial = at least one slice is populated; distinct = packet shape keys",
		Floor:       300,
		Technique:   "runtime monitor: twin (mutate one side, watch the other) + address-range overlap monitor on Clone results",
		Assumptions: []string{"extension values are reached through GetExtension (the only public way)"},
		Strata: []fw.Stratum{
			{Name: "packet-clone", N: fw.Const(400000, 4000000), Run: c20Packet},
			{Name: "header-clone", N: fw.Const(200000, 2000000), Run: c20Header},
		},
	})
}

type c20Snap struct {
	desc    *ref.Packet
	padFlag bool
	off     int // Header.PayloadOffset (deprecated, exported)
	prof    uint16
	marshal []byte
	mErr    bool
}

func c20SnapPacket(pk *rtp.Packet) c20Snap {
	s := c20Snap{}
	d := gen.FromLib(pk)
	// deep copy: the snapshot must not alias the object it describes
	s.desc = deepCopyDesc(d)
	s.padFlag = pk.Padding
	s.off, s.prof = pk.PayloadOffset, pk.ExtensionProfile
	b, err := pk.Marshal()
	s.marshal, s.mErr = append([]byte{}, b...), err != nil
	return s
}

func c20SnapHeader(h *rtp.Header) c20Snap {
	s := c20Snap{}
	s.desc = deepCopyDesc(gen.FromLibHeader(h))
	s.padFlag = h.Padding
	s.off, s.prof = h.PayloadOffset, h.ExtensionProfile
	b, err := h.Marshal()
	s.marshal, s.mErr = append([]byte{}, b...), err != nil
	return s
}

func deepCopyDesc(d *ref.Packet) *ref.Packet {
	q := *d
	q.CSRC = append([]uint32(nil), d.CSRC...)
	q.Payload = append([]byte(nil), d.Payload...)
	q.Elems = nil
	for _, e := range d.Elems {
		q.Elems = append(q.Elems, ref.Elem{ID: e.ID, Val: append([]byte(nil), e.Val...)})
	}
	return &q
}

func c20Same(a, b c20Snap) string {
	if d := ref.Equal(a.desc, b.desc); d != "" {
		return d
	}
	if a.padFlag != b.padFlag {
		return "padding flag"
	}
	if a.off != b.off {
		return "PayloadOffset"
	}
	if a.prof != b.prof {
		return "ExtensionProfile"
	}
	if a.mErr != b.mErr {
		return "Marshal error-ness"
	}
	if !a.mErr && !bytes.Equal(a.marshal, b.marshal) {
		return "Marshal bytes"
	}
	return ""
}

func rangeOf[T any](s []T) (lo, hi uintptr) {
	if cap(s) == 0 {
		return 0, 0
	}
	var z T
	p := uintptr(unsafe.Pointer(unsafe.SliceData(s)))
	return p, p + uintptr(cap(s))*unsafe.Sizeof(z)
}

func overlaps(alo, ahi, blo, bhi uintptr) bool {
	return alo < ahi && blo < bhi && alo < bhi && blo < ahi
}

// c20Overlap checks that no slice storage (full capacity) is shared.
func c20Overlap(a, b *rtp.Header, pa, pb []byte) string {
	alo, ahi := rangeOf(a.CSRC)
	blo, bhi := rangeOf(b.CSRC)
	if overlaps(alo, ahi, blo, bhi) {
		return "CSRC"
	}
	alo, ahi = rangeOf(a.Extensions)
	blo, bhi = rangeOf(b.Extensions)
	if overlaps(alo, ahi, blo, bhi) {
		return "Extensions-list"
	}
	// elements stay in the list while the X flag is off (an application may toggle the exported field); reach their values anyway
	xa, xb := a.Extension, b.Extension
	if len(a.Extensions) > 0 && len(b.Extensions) > 0 {
		a.Extension, b.Extension = true, true
	}
	defer func() { a.Extension, b.Extension = xa, xb }()
	for _, ia := range a.GetExtensionIDs() {
		va := a.GetExtension(ia)
		alo, ahi = rangeOf(va)
		for _, ib := range b.GetExtensionIDs() {
			blo, bhi = rangeOf(b.GetExtension(ib))
			if overlaps(alo, ahi, blo, bhi) {
				return "extension-value"
			}
		}
	}
	alo, ahi = rangeOf(pa)
	blo, bhi = rangeOf(pb)
	if overlaps(alo, ahi, blo, bhi) {
		return "payload"
	}
	return ""
}

type c20Mut struct {
	name string
	do   func(h *rtp.Header, payload *[]byte, p *ref.Packet, r *fw.Rand)
}

var c20Muts = []c20Mut{
	{"flip-payload-bytes", func(h *rtp.Header, pl *[]byte, p *ref.Packet, r *fw.Rand) {
		if pl != nil {
			for i := range *pl {
				(*pl)[i] ^= 0xFF
			}
		}
	}},
	{"flip-one-payload-byte", func(h *rtp.Header, pl *[]byte, p *ref.Packet, r *fw.Rand) {
		if pl != nil && len(*pl) > 0 {
			(*pl)[r.Intn(len(*pl))] ^= 0x55
		}
	}},
	{"change-each-csrc", func(h *rtp.Header, pl *[]byte, p *ref.Packet, r *fw.Rand) {
		for i := range h.CSRC {
			h.CSRC[i] ^= 0xFFFFFFFF
		}
	}},
	{"change-last-csrc", func(h *rtp.Header, pl *[]byte, p *ref.Packet, r *fw.Rand) {
		if n := len(h.CSRC); n > 0 {
			h.CSRC[n-1]++
		}
	}},
	{"flip-each-extension-value-in-place", func(h *rtp.Header, pl *[]byte, p *ref.Packet, r *fw.Rand) {
		for _, id := range h.GetExtensionIDs() {
			v := h.GetExtension(id)
			for i := range v {
				v[i] ^= 0xFF
			}
		}
	}},
	{"flip-last-extension-value-last-byte", func(h *rtp.Header, pl *[]byte, p *ref.Packet, r *fw.Rand) {
		ids := h.GetExtensionIDs()
		if len(ids) > 0 {
			v := h.GetExtension(ids[len(ids)-1])
			if len(v) > 0 {
				v[len(v)-1] ^= 0x0F
			}
		}
	}},
	{"setextension-replace", func(h *rtp.Header, pl *[]byte, p *ref.Packet, r *fw.Rand) {
		ids := h.GetExtensionIDs()
		if len(ids) > 0 {
			id := ids[r.Intn(len(ids))]
			nv := r.Bytes(len(h.GetExtension(id)))
			_ = h.SetExtension(id, nv)
		}
	}},
	{"setextension-add", func(h *rtp.Header, pl *[]byte, p *ref.Packet, r *fw.Rand) {
		if !h.Extension {
			return
		}
		switch h.ExtensionProfile {
		case 0xBEDE, 0x1000:
			for id := uint8(1); id <= 14; id++ {
				if h.GetExtension(id) == nil {
					_ = h.SetExtension(id, []byte{0xAA, 0xBB, 0xCC})
					return
				}
			}
		}
	}},
	{"delextension-first", func(h *rtp.Header, pl *[]byte, p *ref.Packet, r *fw.Rand) {
		ids := h.GetExtensionIDs()
		if len(ids) > 0 {
			_ = h.DelExtension(ids[0])
		}
	}},
	{"append-csrc-in-capacity", func(h *rtp.Header, pl *[]byte, p *ref.Packet, r *fw.Rand) {
		if len(h.CSRC) < 15 {
			h.CSRC = append(h.CSRC, 0xDEADBEEF)
		}
	}},
	{"append-payload-in-capacity", func(h *rtp.Header, pl *[]byte, p *ref.Packet, r *fw.Rand) {
		if pl != nil {
			*pl = append(*pl, 0xEE, 0xEF)
		}
	}},
	{"truncate-and-overwrite-extensions-list", func(h *rtp.Header, pl *[]byte, p *ref.Packet, r *fw.Rand) {
		// delete the last remaining ids one by one: shifts the list in place
		for _, id := range h.GetExtensionIDs() {
			_ = h.DelExtension(id)
		}
	}},
}

// c20Prepare builds the library value with spare capacity in its slices so
// that in-capacity appends are possible.
func c20Prepare(r *fw.Rand, p *ref.Packet) (*rtp.Packet, error) {
	pk, err := gen.ToLib(p)
	if err != nil {
		return nil, err
	}
	if pk.Extension && r.Chance(1, 6) {
		// an empty extension list that still has capacity (all elements deleted, as after reuse)
		for _, id := range pk.GetExtensionIDs() {
			_ = pk.DelExtension(id)
		}
	} else if pk.Extension && r.Chance(1, 8) {
		// a header obtained by decoding into a receiver that was used before
		if wire, err := pk.Marshal(); err == nil {
			var re rtp.Packet
			big := &rtp.Packet{}
			_ = big.Unmarshal([]byte{0x90, 0, 0, 1, 0, 0, 0, 2, 0, 0, 0, 3, 0xBE, 0xDE, 0, 2, 0x10, 1, 0x20, 2, 0x30, 3, 0, 0})
			re = *big
			if re.Unmarshal(wire) == nil {
				re.Payload = append([]byte(nil), re.Payload...)
				pk = &re
			}
		}
	}
	if (p.ExtKind == ref.ExtOneByte || p.ExtKind == ref.ExtTwoByte) && len(p.Elems) > 0 && r.Chance(1, 12) {
		// a header decoded from a wire image in which an id occurs twice (RFC 8285 does not forbid it, Unmarshal keeps both entries)
		q := *p
		dup := p.Elems[r.Intn(len(p.Elems))]
		n := len(dup.Val)
		if n == 0 {
			n = 1
		}
		q.Elems = append(append([]ref.Elem{}, p.Elems...), ref.Elem{ID: dup.ID, Val: r.Bytes(n)})
		var re rtp.Packet
		if re.Unmarshal(ref.Encode(&q, nil)) == nil {
			re.Payload = append([]byte(nil), re.Payload...)
			pk = &re
		}
	}
	if pk.Extension && len(pk.Extensions) > 0 && r.Chance(1, 10) {
		// the exported X flag switched off while the elements stay in the list (switched on again by some of the mutations)
		pk.Extension = false
	}
	if r.Chance(1, 4) {
		pk.PayloadOffset = r.Pick(-1, 1, 12, 65536, r.Intn(4096)) // deprecated, exported, a header field like any other
	}
	if ids := pk.GetExtensionIDs(); len(ids) >= 2 && r.Chance(1, 8) {
		// several values set from ONE buffer: they start at the same address and have their own lengths
		maxLen := 0
		for _, id := range ids {
			if n := len(pk.GetExtension(id)); n > maxLen {
				maxLen = n
			}
		}
		store := r.Bytes(maxLen + 4)
		for _, id := range ids {
			_ = pk.SetExtension(id, store[:len(pk.GetExtension(id))])
		}
	}
	if r.Chance(1, 3) {
		// extension values whose backing arrays have spare capacity
		for _, id := range pk.GetExtensionIDs() {
			v := pk.GetExtension(id)
			nv := make([]byte, len(v), len(v)+8)
			copy(nv, v)
			_ = pk.SetExtension(id, nv)
		}
	}
	switch r.Intn(3) {
	case 0: // spare capacity
		if pk.Payload != nil {
			np := make([]byte, len(pk.Payload), len(pk.Payload)+8)
			copy(np, pk.Payload)
			pk.Payload = np
		}
		if pk.CSRC != nil {
			nc := make([]uint32, len(pk.CSRC), len(pk.CSRC)+4)
			copy(nc, pk.CSRC)
			pk.CSRC = nc
		}
	case 1: // nil / empty variants
		if len(pk.Payload) == 0 {
			if r.Bool() {
				pk.Payload = nil
			} else {
				pk.Payload = []byte{}
			}
		}
		if len(pk.CSRC) == 0 {
			if r.Bool() {
				pk.CSRC = nil
			} else {
				pk.CSRC = []uint32{}
			}
		}
	}
	return pk, nil
}

func c20Packet(c *fw.Ctx, i int) {
	p := gen.Packet(c.R, gen.ClassesOf(c.R, i))
	if len(p.Payload) > 200 {
		p.Payload = p.Payload[:200]
	}
	pk, err := c20Prepare(c.R, p)
	if err != nil {
		c.Count("skipped_build_refused(C01)", 1)
		return
	}
	if gen.Nontrivial(p) {
		c.Shape(gen.ShapeKey(p))
	}
	if c.WantSample() {
		c.Sample(gen.Describe(p))
	}
	wit := func(extra ...any) map[string]any {
		m := fw.W("packet", gen.Describe(p))
		for k := 0; k+1 < len(extra); k += 2 {
			m[fmt.Sprint(extra[k])] = extra[k+1]
		}
		return m
	}
	for dir := 0; dir < 2; dir++ {
		var cl *rtp.Packet
		if pv, st := fw.Guard(func() { cl = pk.Clone() }); pv != nil {
			c.Fail("C20/packet/panic/"+fw.PanicFunc(st), fmt.Sprintf("Clone panicked: %v", pv), wit("stack", st))
			return
		}
		c.Evals(1)
		so, sc := c20SnapPacket(pk), c20SnapPacket(cl)
		if d := c20Same(so, sc); d != "" {
			c.Fail("C20/packet/clone-not-equal/"+sanitize(d), "Clone differs from the original in "+d, wit("original", gen.Describe(so.desc), "clone", gen.Describe(sc.desc)))
			return
		}
		if cl.PaddingSize != pk.PaddingSize {
			c.Fail("C20/packet/clone-not-equal/padding-size", "Clone differs in PaddingSize", wit())
			return
		}
		if o := c20Overlap(&pk.Header, &cl.Header, pk.Payload, cl.Payload); o != "" {
			c.Fail("C20/packet/shared-storage/"+o, "Clone shares "+o+" storage with the original (address ranges overlap)", wit())
			return
		}
		c.Count("clone_equal_and_disjoint", 1)
		if !pk.Extension && len(pk.Extensions) > 0 {
			// the X flag was off while cloning: switch it on again on both sides, the elements are the original's and the clone's own
			pk.Extension, cl.Extension = true, true
			so, sc = c20SnapPacket(pk), c20SnapPacket(cl)
			if d := c20Same(so, sc); d != "" {
				c.Fail("C20/packet/clone-not-equal/after-X-switched-on-again/"+sanitize(d), "cloned with the X flag off, then X switched on on both: they differ in "+d, wit("original", gen.Describe(so.desc), "clone", gen.Describe(sc.desc)))
				return
			}
			c.Count("clones_taken_with_X_off_and_elements_present", 1)
		}
		// mutate one side (dir 0: the original, dir 1: the clone), watch the other
		mutated, watched := pk, cl
		watchedSnap := sc
		side := "original-mutated"
		if dir == 1 {
			mutated, watched = cl, pk
			watchedSnap = so
			side = "clone-mutated"
		}
		for _, m := range c20Muts {
			if pv, st := fw.Guard(func() { m.do(&mutated.Header, &mutated.Payload, p, c.R) }); pv != nil {
				c.Count("mutation_panicked(not judged here)", 1)
				_ = st
				break
			}
			var now c20Snap
			if pv, st := fw.Guard(func() { now = c20SnapPacket(watched) }); pv != nil {
				c.Fail("C20/packet/"+side+"/"+m.name+"/watched-side-panics", fmt.Sprintf("the untouched side panics after the other was mutated: %v", pv), wit("stack", st))
				return
			}
			c.Count("mutation_checks", 1)
			if d := c20Same(watchedSnap, now); d != "" {
				c.Fail("C20/packet/"+side+"/"+m.name+"/changes-other-side-"+sanitize(d), "mutation '"+m.name+"' on one side changed the other side's "+d, wit("before", gen.Describe(watchedSnap.desc), "after", gen.Describe(now.desc)))
				return
			}
		}
		// rebuild for the second direction
		pk, err = c20Prepare(c.R, p)
		if err != nil {
			return
		}
	}
}

func c20Header(c *fw.Ctx, i int) {
	p := gen.Packet(c.R, gen.ClassesOf(c.R, i))
	p.Payload, p.PadSize = nil, 0
	if gen.Nontrivial(p) {
		c.Shape(gen.ShapeKey(p))
	}
	if c.WantSample() {
		c.Sample(gen.Describe(p))
	}
	wit := func(extra ...any) map[string]any {
		m := fw.W("header", gen.Describe(p))
		for k := 0; k+1 < len(extra); k += 2 {
			m[fmt.Sprint(extra[k])] = extra[k+1]
		}
		return m
	}
	for dir := 0; dir < 2; dir++ {
		pk, err := c20Prepare(c.R, p)
		if err != nil {
			c.Count("skipped_build_refused(C01)", 1)
			return
		}
		h := &pk.Header
		var cl rtp.Header
		if pv, st := fw.Guard(func() { cl = h.Clone() }); pv != nil {
			c.Fail("C20/header/panic/"+fw.PanicFunc(st), fmt.Sprintf("Header.Clone panicked: %v", pv), wit("stack", st))
			return
		}
		c.Evals(1)
		so, sc := c20SnapHeader(h), c20SnapHeader(&cl)
		if d := c20Same(so, sc); d != "" {
			c.Fail("C20/header/clone-not-equal/"+sanitize(d), "Header.Clone differs from the original in "+d, wit("original", gen.Describe(so.desc), "clone", gen.Describe(sc.desc)))
			return
		}
		if o := c20Overlap(h, &cl, nil, nil); o != "" {
			c.Fail("C20/header/shared-storage/"+o, "Header.Clone shares "+o+" storage with the original (address ranges overlap)", wit())
			return
		}
		c.Count("clone_equal_and_disjoint", 1)
		if !h.Extension && len(h.Extensions) > 0 {
			h.Extension, cl.Extension = true, true
			so, sc = c20SnapHeader(h), c20SnapHeader(&cl)
			if d := c20Same(so, sc); d != "" {
				c.Fail("C20/header/clone-not-equal/after-X-switched-on-again/"+sanitize(d), "cloned with the X flag off, then X switched on on both: they differ in "+d, wit("original", gen.Describe(so.desc), "clone", gen.Describe(sc.desc)))
				return
			}
			c.Count("clones_taken_with_X_off_and_elements_present", 1)
		}
		mutated, watched := h, &cl
		watchedSnap := sc
		side := "original-mutated"
		if dir == 1 {
			mutated, watched = &cl, h
			watchedSnap = so
			side = "clone-mutated"
		}
		for _, m := range c20Muts {
			if pv, _ := fw.Guard(func() { m.do(mutated, nil, p, c.R) }); pv != nil {
				c.Count("mutation_panicked(not judged here)", 1)
				break
			}
			var now c20Snap
			if pv, st := fw.Guard(func() { now = c20SnapHeader(watched) }); pv != nil {
				c.Fail("C20/header/"+side+"/"+m.name+"/watched-side-panics", fmt.Sprintf("the untouched side panics after the other was mutated: %v", pv), wit("stack", st))
				return
			}
			c.Count("mutation_checks", 1)
			if d := c20Same(watchedSnap, now); d != "" {
				c.Fail("C20/header/"+side+"/"+m.name+"/changes-other-side-"+sanitize(d), "mutation '"+m.name+"' on one side changed the other side's "+d, wit("before", gen.Describe(watchedSnap.desc), "after", gen.Describe(now.desc)))
				return
			}
		}
	}
}
