package props

import (
	"bytes"
	"fmt"
	"math/bits"

	"github.com/pion/rtp"

	"verifharness/fw"
	"verifharness/gen"
	"verifharness/ref"
)

func init() {
	fw.Register(&fw.Prop{
		ID:    "C19",
		Level: "exploration",
		Rule: "cases = valid VLA values: every non-empty subset of the 4n stream x spatial slots for n = 1..4 (69 900 subsets; all of them in thorough, all n <= 2 " +
			"subsets plus 20 000 sampled in quick) x RID < n x 1-4 temporal layers x bitrates from the LEB128 size classes x resolution present/absent; invalid " +
			"values (count 0/5/-1, RID out of range, spatial id 4/-1, duplicate slot, 0 or 5 temporal layers); decoder fuzz (random strings, mutated valid " +
			"encodings); non-trivial = valid values with >= 2 active layers or >= 2 streams, and every invalid/fuzz case; distinct = (streams, mask pattern " +
			"class, #layers, tl-count multiset class, bitrate size classes, resolution flag)",
		Floor:     200,
		Technique: "runtime monitor: differential against an independent rendering of video-layers-allocation00 (encoder and decoder); fresh-vs-used receiver twin; recover()-guarded decoder fuzz",
		Assumptions: []string{
			"the byte layout of the empty allocation (no active layer) is not judged (the specification does not define it); its round trip through Marshal/Unmarshal, also into a used receiver, is",
			"bitrates are kept below 2^32 (the LEB128 range of C13)",
		},
		Strata: []fw.Stratum{
			{Name: "valid-slot-subsets", N: func(t fw.Tier) int {
				if t == fw.Thorough {
					return 2 * 69900
				}
				return 2*270 + 100000
			}, Run: c19Valid},
			{Name: "empty-allocation", N: fw.Const(200, 2000), Run: c19Empty},
			{Name: "invalid-values", N: fw.Const(30000, 300000), Run: c19Invalid},
			{Name: "decoder-fuzz", N: fw.Const(60000, 600000), Run: c19Fuzz},
		},
	})
}

// c19Subset maps an index to (streams, 16-bit slot mask). Order: n=1 (15), n=2 (255), n=3 (4095), n=4 (65535).
func c19Subset(k int) (int, int) {
	for n := 1; n <= 4; n++ {
		cnt := 1<<(4*uint(n)) - 1
		if k < cnt {
			return n, k + 1
		}
		k -= cnt
	}
	return 4, 0xFFFF
}

func c19Bitrate(r *fw.Rand) int {
	if r.Chance(1, 40) {
		// the field is an int and the encoding an unbounded LEB128: values beyond 32 bits are ordinary non-negative bitrates
		return int(r.PickU64(1<<32, 1<<32+1, 1<<35-1, 1<<35, 1<<42, 1<<42-1, 1<<49-1, 1<<49, 1<<56-1, 1<<49+r.U64()%(1<<49), 1<<56, 1<<62, 1<<63-1))
	}
	return int(r.PickU64(0, 1, 127, 128, 16383, 16384, 1<<21-1, 1<<21, 1<<21+1, 1<<28-1, 1<<28, 1<<32-1, r.U64()%300, r.U64()%100000, r.U64()%(1<<32)))
}

func c19Dim(r *fw.Rand) int { return r.Pick(1, 2, 65535, 65536, 640, 1280, r.Range(1, 65536)) }

func c19Build(r *fw.Rand, n, mask int, hasRes bool) *ref.VLA {
	v := &ref.VLA{Streams: n, RID: r.Intn(n), HasRes: hasRes}
	// uniform extremes: whole regions of the encoding that are all zero or all ones (an all-zero tail is data, not padding)
	mode := r.Intn(16)
	for s := 0; s < n; s++ {
		for sp := 0; sp < 4; sp++ {
			if mask&(1<<uint(4*s+sp)) == 0 {
				continue
			}
			l := ref.VLALayer{Stream: s, Spatial: sp}
			ntl := r.Pick(1, 2, 3, 4, r.Range(1, 4))
			for t := 0; t < ntl; t++ {
				l.Kbps = append(l.Kbps, c19Bitrate(r))
				if mode == 2 || mode == 3 {
					l.Kbps[t] = 0
				}
			}
			if hasRes {
				l.W, l.H, l.FPS = c19Dim(r), c19Dim(r), r.Pick(0, 1, 30, 60, 255, r.Intn(256))
				switch mode {
				case 0, 3:
					l.W, l.H, l.FPS = 1, 1, 0
				case 1:
					l.W, l.H, l.FPS = 65536, 65536, 255
				}
			}
			v.Layers = append(v.Layers, l)
		}
	}
	return v
}

func c19ToLib(v *ref.VLA) rtp.VLA {
	out := rtp.VLA{RTPStreamID: v.RID, RTPStreamCount: v.Streams, HasResolutionAndFramerate: v.HasRes}
	for _, l := range v.Layers {
		sl := rtp.SpatialLayer{RTPStreamID: l.Stream, SpatialID: l.Spatial, TargetBitrates: append([]int(nil), l.Kbps...)}
		if v.HasRes {
			sl.Width, sl.Height, sl.Framerate = l.W, l.H, l.FPS
		}
		out.ActiveSpatialLayer = append(out.ActiveSpatialLayer, sl)
	}
	return out
}

func c19Equal(v *ref.VLA, got *rtp.VLA) string {
	switch {
	case got.RTPStreamID != v.RID:
		return "RTPStreamID"
	case got.RTPStreamCount != v.Streams:
		return "RTPStreamCount"
	case got.HasResolutionAndFramerate != v.HasRes:
		return "HasResolutionAndFramerate"
	case len(got.ActiveSpatialLayer) != len(v.Layers):
		return "layer-count"
	}
	for i, l := range v.Layers {
		g := got.ActiveSpatialLayer[i]
		if g.RTPStreamID != l.Stream || g.SpatialID != l.Spatial {
			return "layer-slot"
		}
		if len(g.TargetBitrates) != len(l.Kbps) {
			return "temporal-layer-count"
		}
		for j := range l.Kbps {
			if g.TargetBitrates[j] != l.Kbps[j] {
				if uint64(l.Kbps[j]) >= 1<<56 {
					// a value that needs nine or ten LEB128 bytes: its own (narrow) signature
					return "bitrate/value-needs-9-or-10-leb128-bytes"
				}
				return "bitrate"
			}
		}
		if v.HasRes && (g.Width != l.W || g.Height != l.H || g.Framerate != l.FPS) {
			return "resolution"
		}
	}
	return ""
}

func c19Describe(v *ref.VLA) map[string]any {
	ls := []string{}
	for _, l := range v.Layers {
		s := fmt.Sprintf("s%d/sp%d kbps%v", l.Stream, l.Spatial, l.Kbps)
		if v.HasRes {
			s += fmt.Sprintf(" %dx%d@%d", l.W, l.H, l.FPS)
		}
		ls = append(ls, s)
	}
	return map[string]any{"rid": v.RID, "streams": v.Streams, "has_resolution": v.HasRes, "layers": ls}
}

func c19MaskClass(n, mask int) string {
	var m [4]int
	zero, equalNZ := 0, true
	for s := 0; s < n; s++ {
		m[s] = mask >> uint(4*s) & 0xF
		if m[s] == 0 {
			zero++
		}
		if m[s] != m[0] {
			equalNZ = false
		}
	}
	switch {
	case equalNZ && m[0] != 0:
		return "all-equal"
	case zero > 0:
		// are the non-zero masks all equal?
		common, same := 0, true
		for s := 0; s < n; s++ {
			if m[s] == 0 {
				continue
			}
			if common == 0 {
				common = m[s]
			} else if m[s] != common {
				same = false
			}
		}
		if same {
			return fmt.Sprintf("some-inactive-rest-equal(%d)", zero)
		}
		return fmt.Sprintf("some-inactive-rest-differ(%d)", zero)
	}
	return "all-active-differ"
}

func c19Valid(c *fw.Ctx, i int) {
	r := c.R
	hasRes := i%2 == 1
	k := i / 2
	var n, mask int
	if c.Tier == fw.Thorough || k < 270 {
		n, mask = c19Subset(k)
	} else {
		n = r.Pick(3, 4, 4)
		mask = 1 + r.Intn(1<<(4*uint(n))-1)
		if r.Chance(1, 3) { // concentrate on equal / nearly equal masks
			m := 1 + r.Intn(15)
			mask = 0
			for s := 0; s < n; s++ {
				switch r.Intn(4) {
				case 0:
				case 1:
					mask |= (1 + r.Intn(15)) << uint(4*s)
				default:
					mask |= m << uint(4*s)
				}
			}
			if mask == 0 {
				mask = m
			}
		}
	}
	v := c19Build(r, n, mask, hasRes)
	if bits.OnesCount(uint(mask)) >= 12 && r.Chance(1, 3) {
		// the largest allocations: four temporal layers everywhere, bitrates of three and more LEB128 bytes (> 255 bytes in total)
		for k := range v.Layers {
			v.Layers[k].Kbps = []int{16384 + r.Intn(1<<20), 1<<21 + r.Intn(1<<20), 1<<28 + r.Intn(1<<20), 1<<32 - 1 - r.Intn(1000)}
		}
	}
	want := ref.EncodeVLA(v)
	if back, nn, ok := ref.DecodeVLA(want); !ok || nn != len(want) {
		c.HarnessBug("reference VLA decoder rejects reference encoder output " + fw.Hex(want))
		return
	} else {
		lv := c19ToLib(back)
		if d := c19Equal(v, &lv); d != "" {
			c.HarnessBug("reference VLA encoder/decoder disagree on " + d + ": " + fw.Hex(want))
			return
		}
	}
	nl := len(v.Layers)
	if nl >= 2 || n >= 2 {
		szc := 0
		for _, l := range v.Layers {
			for _, kb := range l.Kbps {
				szc |= 1 << uint(len(ref.LEB128(uint64(kb))))
			}
		}
		c.Shapef("n%d|%s|L%d|sz%x|res%v|tlbytes%d", n, c19MaskClass(n, mask), bits.OnesCount(uint(mask)), szc, hasRes, (nl+3)/4)
	}
	if c.WantSample() {
		c.Sample(map[string]any{"value": c19Describe(v), "reference_encoding": fw.Hex(want)})
	}
	wit := func(extra ...any) map[string]any {
		m := fw.W("value", c19Describe(v), "reference_encoding", fw.Hex(want))
		for q := 0; q+1 < len(extra); q += 2 {
			m[fmt.Sprint(extra[q])] = extra[q+1]
		}
		return m
	}
	lv := c19ToLib(v)
	var got []byte
	var err error
	if pv, st := fw.Guard(func() { got, err = lv.Marshal() }); pv != nil {
		c.Fail("C19/marshal/panic/"+fw.PanicFunc(st), fmt.Sprintf("VLA.Marshal panicked on a valid value: %v", pv), wit("stack", st))
		return
	}
	c.Evals(1)
	if err != nil {
		c.Fail("C19/marshal/rejects-valid/"+c19MaskClass(n, mask), "VLA.Marshal rejects a valid value: "+err.Error(), wit())
		return
	}
	if !bytes.Equal(got, want) {
		cause := "other"
		switch {
		case got[0]&0x0F != 0 && want[0]&0x0F == 0:
			cause = "shared-bitmask-used-although-streams-differ"
		case got[0]&0x0F == 0 && want[0]&0x0F != 0:
			cause = "per-stream-bitmasks-used-although-all-equal"
		case len(got) == len(want)+1 && bytes.Equal(got[:len(want)], want) && got[len(want)] == 0:
			cause = "one-surplus-zero-byte"
		case len(got) != len(want):
			cause = fmt.Sprintf("length-off-by-%d", len(got)-len(want))
		}
		c.Fail("C19/marshal/layout-differs/"+cause+"/"+c19MaskClass(n, mask)+fmt.Sprintf("/streams-%d", n), "VLA.Marshal does not produce the specified byte layout", wit("got", fw.Hex(got)))
		return
	}
	c.Count("marshal_layout_exact", 1)
	// decoder: fresh and used receivers
	for variant := 0; variant < 2; variant++ {
		var d rtp.VLA
		vname := "fresh"
		if variant == 1 {
			vname = "used"
			// a receiver that decoded another value (with resolution) before
			other := c19Build(r, r.Range(1, 4), 1+r.Intn(15), true)
			_, _ = d.Unmarshal(ref.EncodeVLA(other))
		}
		var nn int
		in := fw.Exact(want)
		if pv, st := fw.Guard(func() { nn, err = d.Unmarshal(in) }); pv != nil {
			c.Fail("C19/unmarshal/"+vname+"/panic/"+fw.PanicFunc(st), fmt.Sprintf("VLA.Unmarshal panicked on a valid encoding: %v", pv), wit("stack", st))
			return
		}
		c.Evals(1)
		if err != nil {
			c.Fail("C19/unmarshal/"+vname+"/rejects-valid", "VLA.Unmarshal rejects the specified encoding: "+err.Error(), wit())
			return
		}
		if nn != len(want) {
			c.Fail("C19/unmarshal/"+vname+"/consumed-differs", fmt.Sprintf("consumed %d of %d bytes", nn, len(want)), wit())
			return
		}
		if dd := c19Equal(v, &d); dd != "" {
			c.Fail("C19/unmarshal/"+vname+"/differs-in-"+dd, "decoded value differs in "+dd, wit("decoded", d.String()))
			return
		}
	}
	c.Count("unmarshal_exact_fresh_and_used", 1)
}

// c19Empty: an allocation without any active layer satisfies every constraint the property lists. The specification does not
// fix its byte layout, so the layout is not judged - but whatever Marshal emits for it must decode back to it, completely,
// into a fresh receiver and into one that decoded something else before.
func c19Empty(c *fw.Ctx, i int) {
	r := c.R
	n := 1 + i%4
	rid := (i / 4) % n
	lv := rtp.VLA{RTPStreamID: rid, RTPStreamCount: n}
	var b []byte
	var err error
	if pv, st := fw.Guard(func() { b, err = lv.Marshal() }); pv != nil {
		c.Fail("C19/empty/marshal-panics/"+fw.PanicFunc(st), fmt.Sprintf("VLA.Marshal panicked on an allocation without active layers: %v", pv), fw.W("value", lv.String(), "stack", st))
		return
	}
	c.Evals(1)
	if err != nil {
		c.Count("empty_allocation_refused_by_Marshal(not judged)", 1)
		return
	}
	for variant := 0; variant < 2; variant++ {
		var d rtp.VLA
		vname := "fresh"
		if variant == 1 {
			vname = "used"
			other := c19Build(r, r.Range(1, 4), 1+r.Intn(15), r.Bool())
			_, _ = d.Unmarshal(ref.EncodeVLA(other))
		}
		var nn int
		if pv, st := fw.Guard(func() { nn, err = d.Unmarshal(fw.Exact(b)) }); pv != nil {
			c.Fail("C19/empty/unmarshal-panics/"+fw.PanicFunc(st), fmt.Sprintf("VLA.Unmarshal panicked: %v", pv), fw.W("input", fw.Hex(b), "stack", st))
			return
		}
		c.Evals(1)
		if err != nil || nn != len(b) || d.RTPStreamID != rid || d.RTPStreamCount != n || len(d.ActiveSpatialLayer) != 0 || d.HasResolutionAndFramerate {
			c.Fail("C19/empty/"+vname+"/roundtrip-differs", fmt.Sprintf("Marshal of an allocation without active layers (%d streams, id %d) gives %s; Unmarshal into a %s receiver: consumed %d, err %v, value %s",
				n, rid, fw.Hex(b), vname, nn, err, d.String()), fw.W("encoding", fw.Hex(b), "decoded", d.String()))
			return
		}
	}
	c.Count("empty_allocation_roundtrips", 1)
	c.Shapef("empty|n%d|rid%d", n, rid)
}

func c19Invalid(c *fw.Ctx, i int) {
	r := c.R
	n := r.Range(1, 4)
	mask := 1 + r.Intn(1<<(4*uint(n))-1)
	full := r.Chance(1, 4)
	if full {
		n, mask = 4, 0xFFFF // all sixteen slots taken: whatever is wrong comes after a complete table
	}
	v := c19Build(r, n, mask, r.Bool())
	lv := c19ToLib(v)
	kind := ""
	if !full && r.Chance(1, 12) {
		// no active layer at all: the stream count and the own stream id are still checked
		lv.ActiveSpatialLayer = nil
		lv.HasResolutionAndFramerate = false
		kind = "no-layers/"
		switch r.Intn(3) {
		case 0:
			lv.RTPStreamID, kind = lv.RTPStreamCount+r.Pick(0, 1, 4, 256), kind+"rid-ge-count"
		case 1:
			lv.RTPStreamID, kind = -1, kind+"rid-negative"
		default:
			lv.RTPStreamCount, kind = r.Pick(0, 5, -1, 260), kind+"count-out-of-range"
		}
		i = -1
	}
	if full && r.Bool() {
		// a seventeenth entry that is a duplicate, has no bitrates, or names a slot that does not exist
		extra := lv.ActiveSpatialLayer[r.Intn(len(lv.ActiveSpatialLayer))]
		extra.TargetBitrates = []int{7}
		kind = "entry-after-a-full-table/duplicate"
		switch r.Intn(3) {
		case 1:
			extra.TargetBitrates, kind = nil, "entry-after-a-full-table/no-bitrates"
		case 2:
			extra.SpatialID, kind = r.Pick(4, 5, -1), "entry-after-a-full-table/spatial-id"
		}
		lv.ActiveSpatialLayer = append(lv.ActiveSpatialLayer[:len(lv.ActiveSpatialLayer):len(lv.ActiveSpatialLayer)], extra)
		i = -1
	}
	switch i % 10 {
	case -1:
	case 0:
		lv.RTPStreamCount, kind = 0, "count-0"
	case 1:
		lv.RTPStreamCount, kind = r.Pick(5, 5, 6, 256, 257, 260, 65537, 1<<32+1), "count-5-or-more"
	case 2:
		lv.RTPStreamCount, kind = -1, "count-negative"
	case 3:
		lv.RTPStreamID, kind = lv.RTPStreamCount+r.Pick(0, 1, 2, 256, 65536, 1<<32), "rid-ge-count"
	case 4:
		lv.RTPStreamID, kind = -1-r.Intn(3), "rid-negative"
	case 5:
		k := r.Intn(len(lv.ActiveSpatialLayer))
		lv.ActiveSpatialLayer[k].SpatialID, kind = r.Pick(4, 5, -1, 255, 256, 257, 259, 65536, 1<<32, -256), "spatial-id-out-of-range"
	case 6:
		k := r.Intn(len(lv.ActiveSpatialLayer))
		dup := lv.ActiveSpatialLayer[k]
		dup.TargetBitrates = []int{1}
		pos := r.Intn(len(lv.ActiveSpatialLayer) + 1)
		lv.ActiveSpatialLayer = append(lv.ActiveSpatialLayer[:pos:pos], append([]rtp.SpatialLayer{dup}, lv.ActiveSpatialLayer[pos:]...)...)
		kind = "duplicate-slot"
	case 7:
		k := r.Intn(len(lv.ActiveSpatialLayer))
		lv.ActiveSpatialLayer[k].TargetBitrates, kind = nil, "temporal-layers-0"
	case 8:
		k := r.Intn(len(lv.ActiveSpatialLayer))
		// five and more: also the counts that come back into 1..4 when a narrower integer holds them
		nt := r.Pick(5, 5, 6, 8, 255, 256, 257, 258, 259, 260, 261, 513, 65537, 65540)
		lv.ActiveSpatialLayer[k].TargetBitrates, kind = make([]int, nt), "temporal-layers-5-or-more"
		for q := range lv.ActiveSpatialLayer[k].TargetBitrates {
			lv.ActiveSpatialLayer[k].TargetBitrates[q] = q
		}
	default:
		k := r.Intn(len(lv.ActiveSpatialLayer))
		lv.ActiveSpatialLayer[k].RTPStreamID, kind = r.Pick(lv.RTPStreamCount, 4, -1, 7, 256, 257, 65536, 1<<32, -256), "layer-stream-id-out-of-range"
	}
	var got []byte
	var err error
	if pv, st := fw.Guard(func() { got, err = lv.Marshal() }); pv != nil {
		c.Fail("C19/invalid/"+kind+"/panic/"+fw.PanicFunc(st), fmt.Sprintf("VLA.Marshal panicked on an invalid value: %v", pv), fw.W("value", lv.String(), "stack", st))
		return
	}
	c.Evals(1)
	c.Shapef("invalid|%s|n%d", kind, n)
	if err == nil {
		c.Fail("C19/invalid/"+kind+"/accepted", "VLA.Marshal accepted an invalid value ("+kind+")", fw.W("value", lv.String(), "encoded", fw.Hex(got)))
		return
	}
	c.Count("invalid_rejected", 1)
	if c.WantSample() {
		c.Sample(map[string]any{"invalid_kind": kind, "value": lv.String()})
	}
}

func c19Fuzz(c *fw.Ctx, i int) {
	r := c.R
	var d rtp.VLA // persistent across the case: reuse is part of the fuzz
	for k := 0; k < 64; k++ {
		var in []byte
		origin := ""
		switch r.Intn(4) {
		case 0:
			in, origin = r.Bytes(r.Pick(0, 1, 2, 3, 4, r.Range(0, 40))), "random"
		case 1:
			in, origin = gen.RandomWire(r), "random"
		default:
			n := r.Range(1, 4)
			v := c19Build(r, n, 1+r.Intn(1<<(4*uint(n))-1), r.Bool())
			in = ref.EncodeVLA(v)
			origin = "mutant"
			switch r.Intn(7) {
			case 5, 6:
				origin = "valid" // an unmodified valid encoding after an arbitrary history on the same receiver
			case 0:
				in = in[:r.Intn(len(in)+1)]
			case 1:
				in[r.Intn(len(in))] ^= 1 << uint(r.Intn(8))
			case 2:
				in[r.Intn(len(in))] = gen.BoundaryBytes[r.Intn(len(gen.BoundaryBytes))]
			case 3:
				// a bitrate field replaced by a LEB128 monster (nine and more bytes, bit 63 set, unterminated)
				pos := r.Intn(len(in) + 1)
				in = append(append(append([]byte{}, in[:pos]...), gen.LEBMonster(r)...), in[pos:]...)
			default:
				in = append(in, r.Bytes(r.Range(1, 6))...)
			}
		}
		if r.Chance(1, 20) {
			in, origin = nil, "random"
		}
		var nn int
		var err error
		var fresh rtp.VLA
		var fn int
		var ferr error
		if pv, st := fw.Guard(func() {
			fn, ferr = fresh.Unmarshal(fw.Exact(in))
			nn, err = d.Unmarshal(fw.Exact(in))
		}); pv != nil {
			c.Fail("C19/fuzz/panic/"+fw.PanicFunc(st), fmt.Sprintf("VLA.Unmarshal panicked: %v", pv), fw.W("input", fw.Hex(in), "stack", st))
			return
		}
		c.Evals(2)
		w := fw.W("input", fw.Hex(in), "origin", origin)
		if nn < 0 || nn > len(in) || fn < 0 || fn > len(in) {
			c.Fail("C19/fuzz/consumed-more-than-given", fmt.Sprintf("Unmarshal reports %d/%d bytes consumed of %d", fn, nn, len(in)), w)
			return
		}
		if origin == "valid" && (err != nil || ferr != nil || nn != fn || nn != len(in) || d.String() != fresh.String() || d.HasResolutionAndFramerate != fresh.HasResolutionAndFramerate) {
			c.Fail("C19/fuzz/used-receiver-differs", "a used receiver decodes differently from a fresh one", fw.W("input", fw.Hex(in), "fresh", fresh.String(), "used", d.String(), "fresh_err", fmt.Sprint(ferr), "used_err", fmt.Sprint(err)))
			return
		}
		c.Shapef("fuzz|%s|ok%v|len%s", origin, err == nil, lenClassS(len(in)))
	}
}
