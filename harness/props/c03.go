package props

import (
	"bytes"
	"fmt"

	"github.com/pion/rtp"

	"verifharness/fw"
	"verifharness/gen"
	"verifharness/ref"
)

func init() {
	fw.Register(&fw.Prop{
		ID:    "C03",
		Level: "exploration",
		Rule: "cases = wire images rendered from the RFC 3550/8285 grammar by an encoder that never calls the library (any CSRC count; one-byte, two-byte or legacy " +
			"block; zero padding bytes before/after elements; id-15 terminator with junk; extra fill words; RTP padding with arbitrary fill), their accepted " +
			"structural mutants, and the standalone block views; non-trivial = the image has an extension block, CSRCs or RTP padding; distinct = packet shape " +
			"key x layout class (canonical / interior padding / trailing padding / terminator / extra words / non-zero RTP padding fill)",
		Floor:     400,
		Technique: "runtime monitor: differential against an independent RFC 3550/8285 reference encoder/decoder; re-encode stability oracle; block-view oracle",
		Assumptions: []string{
			"the reference encoder and decoder are cross-checked on every case; a disagreement makes the run inconclusive",
			"two-byte profile means exactly 0x1000 (the library's documented constant); RFC 8285 appbits != 0 are exercised as legacy profiles",
			"ids are distinct within a block (first-match lookup is then unambiguous)",
		},
		Strata: []fw.Stratum{
			{Name: "grammar-images", N: fw.Const(1500000, 15000000), Run: c03Grammar},
			{Name: "accepted-mutants", N: fw.Const(2500000, 25000000), Run: c03Mutant},
			{Name: "block-views", N: fw.Const(900000, 9000000), Run: c03Views},
		},
	})
}

func layoutClass(p *ref.Packet, l *ref.Layout) string {
	if l.Canonical() {
		return "canonical"
	}
	s := ""
	for _, n := range l.PadBefore {
		if n > 0 {
			s += "I"
			break
		}
	}
	if l.PadAfter > 0 {
		s += "T"
	}
	if l.Terminator && p.ExtKind == ref.ExtOneByte {
		s += fmt.Sprintf("X%d", len(l.TermJunk))
	}
	if l.ExtraWords > 0 {
		s += "W"
	}
	for _, b := range l.PadFill {
		if b != 0 {
			s += "F"
			break
		}
	}
	if s == "" {
		return "canonical"
	}
	return s
}

func describeLayout(l *ref.Layout) any {
	if l == nil {
		return "canonical"
	}
	return map[string]any{"pad_before": l.PadBefore, "pad_after": l.PadAfter, "terminator": l.Terminator, "term_nibble": l.TermNibble,
		"term_junk": fw.Hex(l.TermJunk), "extra_words": l.ExtraWords, "rtp_pad_fill": fw.Trunc(fw.Hex(l.PadFill), 40)}
}

// termOffset returns the offset of the id-15 byte in the image, or -1.
func termOffset(p *ref.Packet, l *ref.Layout) int {
	if l == nil || !l.Terminator || p.ExtKind != ref.ExtOneByte {
		return -1
	}
	off := 12 + 4*len(p.CSRC) + 4
	for i, e := range p.Elems {
		off += l.PadBefore[i] + 1 + len(e.Val)
	}
	return off + l.PadAfter
}

func c03Image(c *fw.Ctx, i int) ([]byte, *ref.Packet, *ref.Layout, bool) {
	p := gen.Packet(c.R, gen.ClassesOf(c.R, i))
	if len(p.Payload) > 300 {
		p.Payload = p.Payload[:c.R.Range(0, 300)]
	}
	l := gen.Layout(c.R, p, 30)
	wire := ref.Encode(p, l)
	// self-check of the reference pair
	back, hn, err := ref.Decode(wire)
	if err != nil {
		c.HarnessBug("reference decoder rejects reference encoder output: " + fw.Hex(wire))
		return nil, nil, nil, false
	}
	if d := ref.Equal(p, back); d != "" || hn != ref.HeaderLen(p, l) {
		c.HarnessBug("reference encoder/decoder disagree on " + d + ": " + fw.Hex(wire))
		return nil, nil, nil, false
	}
	return wire, p, l, true
}

func c03Grammar(c *fw.Ctx, i int) {
	wire, p, l, ok := c03Image(c, i)
	if !ok {
		return
	}
	if gen.Nontrivial(p) {
		c.Shape(gen.ShapeKey(p) + "|" + layoutClass(p, l))
	}
	if c.WantSample() {
		c.Sample(map[string]any{"packet": gen.Describe(p), "layout": describeLayout(l), "wire": fw.Trunc(fw.Hex(wire), 160)})
	}
	wit := func(extra ...any) map[string]any {
		m := fw.W("packet", gen.Describe(p), "layout", describeLayout(l), "wire", fw.Hex(wire))
		for k := 0; k+1 < len(extra); k += 2 {
			m[fmt.Sprint(extra[k])] = extra[k+1]
		}
		return m
	}
	kind := []string{"noext", "onebyte", "twobyte", "legacy"}[p.ExtKind]
	var pk rtp.Packet
	var h rtp.Header
	var err, herr error
	var hn int
	in := fw.Exact(wire)
	if pv, st := fw.Guard(func() {
		err = pk.Unmarshal(in)
		hn, herr = h.Unmarshal(fw.Exact(wire))
	}); pv != nil {
		c.Fail("C03/decode/panic/"+fw.PanicFunc(st), fmt.Sprintf("Unmarshal panicked on a well-formed image: %v", pv), wit("stack", st))
		return
	}
	c.Evals(2)
	if err != nil || herr != nil {
		e := err
		if e == nil {
			e = herr
		}
		c.Fail("C03/decode/"+kind+"/rejects-well-formed/"+flushClass(p, wire, false)+"/"+layoutClass(p, l), "a well-formed RFC 3550/8285 image is rejected: "+e.Error(), wit())
		return
	}
	got := gen.FromLib(&pk)
	wantHN := ref.HeaderLen(p, l)
	d := ref.Equal(p, got)
	if d == "" && hn != wantHN {
		d = "header length"
	}
	if d == "" && pk.Padding != (p.PadSize > 0) {
		d = "padding flag"
	}
	if d != "" {
		// is it exactly the known deviation "the header ends right after the id-15 byte"?
		if to := termOffset(p, l); to >= 0 && hn == to+1 {
			dev := *p
			dev.Payload = wire[to+1 : len(wire)-int(p.PadSize)]
			if ref.Equal(&dev, got) == "" {
				c.Fail("C03/decode/onebyte/id15-terminator/header-ends-right-after-terminator-byte",
					"after the reserved id 15 the reported header length stops at the terminator, so the payload starts inside the extension block instead of right after it",
					wit("decoded", gen.Describe(got), "reported_header_len", hn, "expected_header_len", wantHN))
				return
			}
		}
		c.Fail("C03/decode/"+kind+"/differs-in-"+sanitize(d)+"/"+layoutClass(p, l), "decoded packet differs from the values the image was built from in "+d,
			wit("decoded", gen.Describe(got), "reported_header_len", hn, "expected_header_len", wantHN))
		return
	}
	c.Count("grammar_images_decoded_exactly", 1)
	c03Reencode(c, wire, &pk, l.Canonical(), "grammar", wit)
}

// c03Reencode is the re-encode stability oracle for an accepted input.
func c03Reencode(c *fw.Ctx, input []byte, pk *rtp.Packet, canonical bool, origin string, wit func(...any) map[string]any) {
	first := gen.FromLib(pk)
	first = deepCopyDesc(first)
	firstPad := pk.Padding
	var out []byte
	var err error
	if pv, st := fw.Guard(func() { out, err = pk.Marshal() }); pv != nil {
		c.Fail("C03/reencode/"+origin+"/marshal-panics/"+fw.PanicFunc(st), fmt.Sprintf("Marshal of an accepted input panicked: %v", pv), wit("stack", st))
		return
	}
	c.Evals(1)
	if err != nil {
		if pk.Padding && pk.PaddingSize == 0 {
			c.Count("reencode_invalid_padding_refused(allowed)", 1)
			return
		}
		c.Fail("C03/reencode/"+origin+"/marshal-error", "Marshal of an accepted input fails for a reason other than P-bit-with-zero-count: "+err.Error(), wit("decoded", gen.Describe(first)))
		return
	}
	var again rtp.Packet
	if pv, st := fw.Guard(func() { err = again.Unmarshal(append([]byte{}, out...)) }); pv != nil {
		c.Fail("C03/reencode/"+origin+"/unmarshal-panics/"+fw.PanicFunc(st), fmt.Sprintf("Unmarshal of re-encoded bytes panicked: %v", pv), wit("reencoded", fw.Hex(out), "stack", st))
		return
	}
	c.Evals(1)
	if err != nil {
		c.Fail("C03/reencode/"+origin+"/reencoding-rejected", "the re-encoding of an accepted input does not parse: "+err.Error(), wit("reencoded", fw.Hex(out), "decoded", gen.Describe(first)))
		return
	}
	second := gen.FromLib(&again)
	if d := ref.Equal(first, second); d != "" || again.Padding != firstPad {
		if d == "" {
			d = "padding flag"
		}
		c.Fail("C03/reencode/"+origin+"/decodes-differently-in-"+sanitize(d), "the re-encoding decodes to a different packet ("+d+")",
			wit("reencoded", fw.Hex(out), "first", gen.Describe(first), "second", gen.Describe(second)))
		return
	}
	c.Count("reencode_stable", 1)
	if canonical {
		c.Count("canonical_images_checked", 1)
		if !bytes.Equal(out, input) {
			c.Fail("C03/reencode/"+origin+"/canonical-input-not-byte-identical", "a canonical image is not reproduced byte for byte", wit("reencoded", fw.Hex(out)))
		}
	}
}

func c03Mutant(c *fw.Ctx, i int) {
	wire, p, l, ok := c03Image(c, i)
	if !ok {
		return
	}
	in := gen.Mutate(c.R, wire)
	wit := func(extra ...any) map[string]any {
		m := fw.W("mutant", fw.Hex(in), "original_image", fw.Hex(wire))
		for k := 0; k+1 < len(extra); k += 2 {
			m[fmt.Sprint(extra[k])] = extra[k+1]
		}
		return m
	}
	var pk rtp.Packet
	var err error
	if pv, st := fw.Guard(func() { err = pk.Unmarshal(fw.Exact(in)) }); pv != nil {
		c.Fail("C03/mutant/panic/"+fw.PanicFunc(st), fmt.Sprintf("Unmarshal panicked: %v", pv), wit("stack", st))
		return
	}
	c.Evals(1)
	if err != nil {
		c.Count("mutants_rejected", 1)
		return
	}
	c.Count("mutants_accepted", 1)
	prof := "-"
	if pk.Extension {
		prof = fmt.Sprintf("%04x", pk.ExtensionProfile)
		if pk.ExtensionProfile != 0xBEDE && pk.ExtensionProfile != 0x1000 {
			prof = "legacy"
		}
	}
	c.Shapef("accepted|%s|n%d|cc%d|pad%v|%s|%s", prof, len(pk.GetExtensionIDs()), len(pk.CSRC), pk.Padding, lenClass3(len(pk.Payload)), layoutClass(p, l))
	if c.WantSample() {
		c.Sample(map[string]any{"mutant": fw.Trunc(fw.Hex(in), 160), "accepted": true})
	}
	c03Reencode(c, in, &pk, false, "mutant", wit)
}

func lenClass3(n int) string {
	switch {
	case n == 0:
		return "0"
	case n < 16:
		return "s"
	default:
		return "l"
	}
}

func c03Views(c *fw.Ctx, i int) {
	r := c.R
	p := gen.Packet(r, gen.PacketClasses{CSRC: 0, Ext: 1 + r.Intn(gen.NExtClasses-1), Payload: 0, Pad: 0})
	l := gen.Layout(r, p, 30)
	block := ref.ExtBlock(p, l)
	kind := []string{"noext", "onebyte", "twobyte", "legacy"}[p.ExtKind]
	c.Shapef("%s|n%d|%s|len%s", kind, len(p.Elems), layoutClass(p, l), lenClassS(len(block)))
	if c.WantSample() {
		c.Sample(map[string]any{"kind": kind, "block": fw.Trunc(fw.Hex(block), 160), "layout": describeLayout(l)})
	}
	wit := func(extra ...any) map[string]any {
		m := fw.W("kind", kind, "block", fw.Hex(block), "layout", describeLayout(l), "elements", gen.Describe(p)["elems"])
		for k := 0; k+1 < len(extra); k += 2 {
			m[fmt.Sprint(extra[k])] = extra[k+1]
		}
		return m
	}
	var view rtp.HeaderExtension
	switch p.ExtKind {
	case ref.ExtOneByte:
		view = &rtp.OneByteHeaderExtension{}
	case ref.ExtTwoByte:
		view = &rtp.TwoByteHeaderExtension{}
	default:
		view = &rtp.RawExtension{}
	}
	in := fw.Exact(block)
	var n int
	var err error
	var ids []uint8
	vals := map[uint8][]byte{}
	absentID, absentVal := -1, []byte(nil)
	var mb, mt []byte
	var msz, mtn int
	var merr, mterr error
	pv, st := fw.Guard(func() {
		n, err = view.Unmarshal(in)
		if err != nil {
			return
		}
		ids = view.GetIDs()
		for _, e := range p.Elems {
			vals[e.ID] = view.Get(e.ID)
		}
		// ids the block does not hold: ids that differ from a held one by a multiple of 16, neighbours, 0, 15, 255
		if p.ExtKind != ref.ExtLegacy && (l == nil || !l.Terminator) {
			// (blocks with an id-15 terminator are left out: what the one-byte view's Get does with an id that is not there, once it has
			// walked past the terminator into the bytes behind it, is no "id or value of the block" - it returns those bytes or panics,
			// see DESIGN 8.3)
			held := map[uint8]bool{}
			for _, e := range p.Elems {
				held[e.ID] = true
			}
			var probe []uint8
			for _, e := range p.Elems {
				probe = append(probe, e.ID+16, e.ID+32, e.ID+128, e.ID-16, e.ID+1, e.ID-1)
			}
			probe = append(probe, 0, 16, 17, 255, uint8(r.Intn(256)))
			for _, id := range probe {
				if p.ExtKind == ref.ExtOneByte && id&0x0F == 15 && id < 16 {
					continue // id 15 is the reserved terminator of the one-byte form, not an id a block can hold: asking for it is not judged
				}
				if !held[id] {
					if v := view.Get(id); len(v) != 0 {
						absentID, absentVal = int(id), append([]byte(nil), v...)
					}
				}
			}
		}
		msz = view.MarshalSize()
		mb, merr = view.Marshal()
		mt = make([]byte, len(block)+4)
		for k := range mt {
			mt[k] = 0xA5
		}
		mtn, mterr = view.MarshalTo(mt)
	})
	c.Evals(5)
	if pv != nil {
		c.Fail("C03/view/"+kind+"/panic/"+fw.PanicFunc(st), fmt.Sprintf("a block view panicked on a well-formed block: %v", pv), wit("stack", st))
		return
	}
	if err != nil {
		c.Fail("C03/view/"+kind+"/unmarshal-rejects", "the view rejects a well-formed block of its profile: "+err.Error(), wit())
		return
	}
	if absentID >= 0 {
		c.Fail("C03/view/"+kind+"/get-of-an-absent-id-returns-a-value", fmt.Sprintf("Get(%d) returns %s although the block holds no element with that id", absentID, fw.Hex(absentVal)), wit())
		return
	}
	if n != len(block) {
		c.Fail("C03/view/"+kind+"/unmarshal-length", fmt.Sprintf("Unmarshal consumed %d of %d block bytes", n, len(block)), wit())
		return
	}
	if p.ExtKind == ref.ExtLegacy {
		if len(ids) != 1 || ids[0] != 0 {
			c.Fail("C03/view/legacy/ids", fmt.Sprintf("RawExtension.GetIDs = %v, want [0]", ids), wit())
			return
		}
		v := view.Get(0)
		if !bytes.Equal(v, block) && !bytes.Equal(v, block[4:]) {
			c.Fail("C03/view/legacy/value", "RawExtension.Get(0) is neither the block nor its data part", wit("got", fw.Hex(v)))
			return
		}
	} else {
		if len(ids) != len(p.Elems) {
			c.Fail("C03/view/"+kind+"/ids-count/"+layoutClass(p, l), fmt.Sprintf("GetIDs = %v, expected %d ids", ids, len(p.Elems)), wit())
			return
		}
		for k, e := range p.Elems {
			if ids[k] != e.ID {
				c.Fail("C03/view/"+kind+"/ids-order/"+layoutClass(p, l), fmt.Sprintf("GetIDs = %v differs at %d", ids, k), wit())
				return
			}
			if !bytes.Equal(vals[e.ID], e.Val) {
				c.Fail("C03/view/"+kind+"/value/"+layoutClass(p, l), fmt.Sprintf("Get(%d) = %s, want %s", e.ID, fw.Hex(vals[e.ID]), fw.Hex(e.Val)), wit())
				return
			}
		}
	}
	if merr != nil || !bytes.Equal(mb, block) {
		c.Fail("C03/view/"+kind+"/marshal-not-identical", "Marshal does not reproduce the block byte for byte", wit("got", fw.Hex(mb)))
		return
	}
	if msz != len(block) {
		c.Fail("C03/view/"+kind+"/marshalsize", fmt.Sprintf("MarshalSize = %d, block is %d bytes", msz, len(block)), wit())
		return
	}
	// a destination of exactly MarshalSize() bytes is sufficient
	exact := make([]byte, len(block))
	var exn int
	var exerr error
	if pv, st := fw.Guard(func() { exn, exerr = view.MarshalTo(exact) }); pv != nil {
		c.Fail("C03/view/"+kind+"/panic/"+fw.PanicFunc(st), fmt.Sprintf("MarshalTo panicked on an exact-size destination: %v", pv), wit("stack", st))
		return
	}
	if exerr != nil || exn != len(block) || !bytes.Equal(exact, block) {
		c.Fail("C03/view/"+kind+"/marshalto-exact-size-destination", fmt.Sprintf("MarshalTo into a destination of exactly MarshalSize() bytes: n=%d err=%v", exn, exerr), wit())
		return
	}
	if len(block) > 0 {
		short := make([]byte, len(block)-1)
		if pv, st := fw.Guard(func() { _, exerr = view.MarshalTo(short) }); pv != nil {
			c.Fail("C03/view/"+kind+"/panic/"+fw.PanicFunc(st), fmt.Sprintf("MarshalTo panicked on a short destination: %v", pv), wit("stack", st))
			return
		}
	}
	if mterr != nil || mtn != len(block) || !bytes.Equal(mt[:len(block)], block) || !bytes.Equal(mt[len(block):], []byte{0xA5, 0xA5, 0xA5, 0xA5}) {
		c.Fail("C03/view/"+kind+"/marshalto-not-identical", "MarshalTo does not reproduce the block byte for byte (or wrote beyond it)", wit("got", fw.Hex(mt), "n", mtn))
		return
	}
	c.Count("views_exact", 1)
}
