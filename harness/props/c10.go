package props

import (
	"bytes"
	"fmt"

	"github.com/pion/rtp/codecs"

	"verifharness/fw"
	"verifharness/gen"
	"verifharness/ref"
)

func init() {
	fw.Register(&fw.Prop{
		ID:    "C10",
		Level: "exploration",
		Rule: "payloader side: 1-3 access units (calls) of 1-6 NAL units (types 1-23, sizes {2, 3, MTU-2..MTU+3, 2*MTU+-1, random <= 4*MTU}, bodies without start-code " +
			"emulation, 3- and 4-byte start codes, AUD/filler units, SPS+PPS pairs possibly split across calls) x MTU {3..40, 100, 1200, random} x StapA on/off x " +
			"AVC on/off; the payload stream is parsed by an independent RFC 6184 reassembler and fed to one H264Packet; decoder side: streams from an " +
			"independent encoder (single, STAP-A of 1-6 units, FU-A of 2-8 fragments incl. empty ones); non-trivial = the case contains a fragmented unit, " +
			"a STAP-A or >= 3 units; distinct = (MTU class, stapA, avc, unit-kind pattern, size-vs-MTU classes)",
		Floor:     300,
		Technique: "runtime monitor: differential against an independent RFC 6184 reassembler/encoder; H264Packet output compared with the expected framing; structural FU-A/STAP-A rules",
		Assumptions: []string{
			"NAL bodies contain no start-code emulation and do not end in 00 (as in real bitstreams); otherwise Annex-B splitting is ambiguous by construction",
			"parameter sets appear as adjacent SPS,PPS pairs followed (possibly after AUD/filler) by an emitted unit; lone/reversed/trailing parameter sets are not judged",
		},
		Strata: []fw.Stratum{
			{Name: "payloader-to-depacketizer", N: fw.Const(300000, 8000000), Run: c10Pay},
			{Name: "independent-encoder-to-depacketizer", N: fw.Const(200000, 6000000), Run: c10Dec},
		},
	})
}

func c10MTU(r *fw.Rand) int {
	return r.Pick(3, 4, 5, 6, 7, 8, 9, 10, 12, 16, 20, 33, 40, 100, 1200, 1460, 9000, 65535, r.Range(3, 40), r.Range(3, 40), r.Range(41, 1500))
}

var c10SliceTypes = []int{1, 1, 1, 5, 5, 2, 3, 4, 6, 10, 11, 13, 14, 15, 16, 19, 20, 21, 22, 23}

type c10Call struct {
	units [][]byte
}

// c10Stream builds the calls and the expected delivered unit list.
func c10Stream(r *fw.Rand, mtu int) (calls []c10Call, expect [][]byte, pairs map[int]bool, pattern string) {
	ncalls := r.Range(1, 3)
	pairs = map[int]bool{}
	var all [][]byte
	var kinds []byte
	total := 0
	needSlice := false
	var lastSPS, lastPPS []byte
	many := r.Chance(1, 60) // access units with very many small NAL units (slices, SEI): any fixed-size table inside overflows
	for cidx := 0; cidx < ncalls; cidx++ {
		n := r.Range(1, 6)
		if many {
			n = r.Pick(31, 32, 33, 34, 35, 63, 64, 65, 66, 67, 100, 129, 255, 256, 257, 300)
		}
		for k := 0; k < n; k++ {
			sel := r.Intn(12)
			if many && sel >= 4 {
				t := c10SliceTypes[r.Intn(len(c10SliceTypes))]
				all = append(all, gen.H264Unit(r, t, r.Pick(2, 3, 4, 5, r.Range(2, 12), r.Range(2, mtu+3))))
				kinds = append(kinds, 'u')
				needSlice = false
				continue
			}
			if needSlice && (sel == 2 || sel == 3) {
				sel = 5 // a parameter-set pair is followed by an emitted unit before the next pair
			}
			switch sel {
			case 0: // AUD
				all = append(all, gen.H264Unit(r, 9, r.Range(2, 4)))
				kinds = append(kinds, 'a')
			case 1: // filler
				all = append(all, gen.H264Unit(r, 12, r.Range(2, 10)))
				kinds = append(kinds, 'f')
			case 2, 3: // SPS+PPS pair
				sps := gen.H264Unit(r, 7, r.Pick(2, 3, 8, 20, r.Range(2, 40), mtu/2))
				pps := gen.H264Unit(r, 8, r.Pick(2, 3, 5, r.Range(2, 20), mtu/2))
				if mtu >= 10 && r.Chance(1, 3) {
					// 1 + 2 + |SPS| + 2 + |PPS| lands on MTU-1, MTU or MTU+1
					ps := r.Range(2, mtu-8)
					ss := mtu - 5 - ps + r.Pick(-1, 0, 1)
					if ss >= 2 && ss < 60000 {
						sps, pps = gen.H264Unit(r, 7, ss), gen.H264Unit(r, 8, ps)
					}
				}
				if lastSPS != nil && r.Chance(1, 2) {
					// a second pair that resembles the first: same lengths, one byte changed, or the same bytes cut at another place
					// (whatever is remembered about the previous pair must be compared completely before it is reused)
					cs, cp := sps, pps
					switch r.Intn(3) {
					case 0:
						cs, cp = gen.H264Unit(r, 7, len(lastSPS)), gen.H264Unit(r, 8, len(lastPPS))
					case 1:
						cs, cp = append([]byte(nil), lastSPS...), append([]byte(nil), lastPPS...)
						if len(cs) > 2 && r.Bool() {
							cs[1+r.Intn(len(cs)-2)] ^= 0x10
						} else if len(cp) > 2 {
							cp[1+r.Intn(len(cp)-2)] ^= 0x10
						}
					default:
						// SPS2 = SPS1[:c], PPS2 = SPS1[c+2:] || BE16(len PPS1) || PPS1: the same octets in the same order, split elsewhere
						if n := len(lastSPS); n >= 8 {
							c := r.Range(2, n-4)
							old := lastSPS[c+2]
							lastSPS[c+2] = old&0x60 | 8 // (both unit lists share this slice: the first pair is what it is now)
							s2 := append([]byte(nil), lastSPS[:c]...)
							p2 := append([]byte(nil), lastSPS[c+2:]...)
							p2 = append(p2, byte(len(lastPPS)>>8), byte(len(lastPPS)))
							p2 = append(p2, lastPPS...)
							if gen.NALOK(lastSPS) && len(p2) < 60000 {
								cs, cp = s2, p2
							} else {
								lastSPS[c+2] = old
							}
						}
					}
					if gen.NALOK(cs) && gen.NALOK(cp) && len(cs) >= 2 && len(cp) >= 2 {
						sps, pps = cs, cp
					}
				}
				lastSPS, lastPPS = sps, pps
				if r.Chance(1, 6) {
					// the pair handed in as PPS, SPS: both are parameter sets held for the next unit; in which order the two come out is not judged
					all = append(all, pps, sps)
					kinds = append(kinds, 'Q', 'T')
				} else {
					all = append(all, sps, pps)
					kinds = append(kinds, 'S', 'P')
				}
				needSlice = true
			default:
				t := c10SliceTypes[r.Intn(len(c10SliceTypes))]
				sz := gen.H264Size(r, mtu)
				if (mtu >= 1000 && r.Chance(1, 12)) || (mtu >= 64 && r.Chance(1, 150)) || r.Chance(1, 5000) {
					// units larger than 64 KiB are ordinary for key frames: 16-bit length arithmetic must not be involved
					sz = r.Pick(65534, 65535, 65536, 65537, 70000, 131072, 131073)
				}
				all = append(all, gen.H264Unit(r, t, sz))
				kinds = append(kinds, 'u')
				needSlice = false
				if sz < 70000 && r.Chance(1, 12) {
					// the same unit again (redundant slices, repeated SEI): byte-identical neighbours are two units
					all = append(all, append([]byte(nil), all[len(all)-1]...))
					kinds = append(kinds, 'u')
				}
			}
		}
		total = len(all)
		_ = total
	}
	// the stream must end with an emitted unit
	all = append(all, gen.H264Unit(r, c10SliceTypes[r.Intn(3)], gen.H264Size(r, mtu)))
	kinds = append(kinds, 'u')
	// distribute over calls: cut points anywhere (also between SPS and PPS)
	cuts := map[int]bool{}
	for k := 1; k < ncalls; k++ {
		cuts[r.Range(1, len(all)-1)] = true
	}
	cur := c10Call{}
	for i, u := range all {
		if cuts[i] && len(cur.units) > 0 {
			calls = append(calls, cur)
			cur = c10Call{}
		}
		cur.units = append(cur.units, u)
	}
	calls = append(calls, cur)
	for i, u := range all {
		if kinds[i] == 'a' || kinds[i] == 'f' {
			continue
		}
		if kinds[i] == 'S' {
			pairs[len(expect)] = true
		}
		if kinds[i] == 'Q' {
			// handed in as PPS, SPS: expected as SPS, PPS (the order of a STAP-A); the comparison accepts the other order too
			pairs[len(expect)] = true
			pairs[len(expect)+1] = true // (marks the pair as handed in PPS first: index of its second member is flagged too)
			expect = append(expect, all[i+1], u)
			continue
		}
		if kinds[i] == 'T' {
			continue
		}
		expect = append(expect, u)
	}
	pattern = string(kinds)
	if len(pattern) > 8 {
		pattern = pattern[:8]
	}
	return
}

func sizeVsMTU(n, mtu int) string {
	switch {
	case n <= mtu-2:
		return "<"
	case n <= mtu:
		return "="
	case n <= 2*mtu-2:
		return "2"
	default:
		return "n"
	}
}

func c10Pay(c *fw.Ctx, i int) {
	r := c.R
	mtu := c10MTU(r)
	stapA := r.Bool()
	avc := r.Bool()
	calls, expect, pairs, pattern := c10Stream(r, mtu)
	if r.Chance(1, 12) {
		// forbidden_zero_bit set on some units (damaged in transit, forwarded as they are): F is part of the unit's first octet
		for _, cl := range calls {
			for _, u := range cl.units {
				if r.Chance(1, 3) {
					u[0] |= 0x80
				}
			}
		}
		c.Count("streams_with_F_bit_units", 1)
	}
	p := &codecs.H264Payloader{DisableStapA: !stapA}
	var payloads [][]byte
	var mtuOf []int // the MTU of the call that returned each payload
	var kpPay keeper
	var callDesc []string
	baseMTU := mtu
	varyMTU := len(calls) >= 2 && r.Chance(1, 4)
	for ci, cl := range calls {
		if varyMTU {
			// the MTU is an argument of every call (path MTU changes): parameter sets handed in under one MTU are sent under another
			mtu = []int{baseMTU, baseMTU + r.Pick(1, 7, 40), baseMTU/2 + 3, baseMTU - r.Pick(1, 2, 5), 2 * baseMTU}[(ci+r.Intn(5))%5]
			if mtu < 3 {
				mtu = 3
			}
			if mtu > 65535 {
				mtu = 65535
			}
			c.Count("calls_with_their_own_mtu", 1)
		}
		in, sc := gen.AnnexB(r, cl.units)
		var out [][]byte
		if pv, st := fw.Guard(func() { out = p.Payload(uint16(mtu), in) }); pv != nil {
			c.Fail("C10/payloader/panic/"+fw.PanicFunc(st), fmt.Sprintf("H264Payloader.Payload panicked: %v", pv), fw.W("mtu", mtu, "input", fw.Hex(in), "stack", st))
			return
		}
		c.Evals(1)
		payloads = append(payloads, out...)
		for range out {
			mtuOf = append(mtuOf, mtu)
		}
		if len(out) <= 64 {
			kpPay.addList(fmt.Sprintf("the payload list returned by call %d", ci), out)
		}
		if what, ch := kpPay.changed(); ch {
			c.Fail("C10/payloader/earlier-result-changed-by-a-later-call", "a later Payload call changed "+what, fw.W("mtu", mtu))
			return
		}
		d := ""
		if varyMTU {
			d = fmt.Sprintf("mtu=%d:", mtu)
		}
		for k, u := range cl.units {
			d += fmt.Sprintf("[sc%d t%d %dB]", sc[k], u[0]&0x1F, len(u))
		}
		callDesc = append(callDesc, d)
	}
	wit := func(extra ...any) map[string]any {
		var ex []string
		for _, u := range expect {
			ex = append(ex, fw.Trunc(fw.Hex(u), 60))
		}
		m := fw.W("mtu", mtu, "stap_a", stapA, "avc", avc, "calls", callDesc, "expected_units", ex, "payloads", fw.HexList(truncList(payloads, 40)))
		for q := 0; q+1 < len(extra); q += 2 {
			m[fmt.Sprint(extra[q])] = extra[q+1]
		}
		return m
	}
	hasFU, hasStap := false, false
	sizes := ""
	for k, u := range expect {
		if k < 5 {
			sizes += sizeVsMTU(len(u), mtu)
		}
	}
	defer func() {
		if hasFU || hasStap || len(expect) >= 3 {
			c.Shapef("mtu%s|stap%v|avc%v|%s|%s", lenClassS(mtu), stapA, avc, pattern, sizes)
		}
	}()
	if c.WantSample() {
		c.Sample(map[string]any{"mtu": mtu, "stap_a": stapA, "avc": avc, "calls": callDesc, "payload_count": len(payloads)})
	}
	for k, pl := range payloads {
		if len(pl) > mtuOf[k] {
			c.Fail("C10/payloader/payload-exceeds-mtu", fmt.Sprintf("payload %d has %d bytes, MTU %d", k, len(pl), mtuOf[k]), wit())
			return
		}
	}
	mtu = baseMTU
	units, err := ref.H264Depay(payloads)
	if err != nil {
		c.Fail("C10/payloader/not-rfc6184-shaped", "the payload stream violates RFC 6184 structure: "+err.Error(), wit())
		return
	}
	// compare delivered units with the expected list
	if len(units) != len(expect) {
		// classify: are exactly SPS/PPS pairs missing whose STAP-A would not fit?
		sig := "C10/payloader/unit-count-differs"
		gi := 0
		onlyPairsMissing := true
		tooBig := false
		for ei := 0; ei < len(expect); ei++ {
			if gi < len(units) && bytes.Equal(units[gi].Data, expect[ei]) {
				gi++
				continue
			}
			t := expect[ei][0] & 0x1F
			if stapA && (t == 7 || t == 8) {
				if t == 7 && ei+1 < len(expect) && 5+len(expect[ei])+len(expect[ei+1]) > mtu {
					tooBig = true
				}
				continue
			}
			onlyPairsMissing = false
		}
		if onlyPairsMissing && tooBig && gi == len(units) {
			sig = "C10/payloader/sps-pps-discarded-when-stap-a-exceeds-mtu"
		}
		c.Fail(sig, fmt.Sprintf("%d NAL units delivered, %d expected", len(units), len(expect)), wit())
		return
	}
	// a pair handed in as PPS, SPS (both of its indices are flagged) may come out in either order
	ppsFirst := map[int]bool{}
	for k := 0; k+1 < len(units); k++ {
		if pairs[k] && pairs[k+1] && bytes.Equal(units[k].Data, expect[k+1]) && bytes.Equal(units[k+1].Data, expect[k]) {
			expect[k], expect[k+1] = expect[k+1], expect[k] // from here on the expected order is the delivered one
			ppsFirst[k], ppsFirst[k+1] = true, true
			c.Count("pps_first_pairs_delivered_pps_first", 1)
		}
	}
	heads := map[int]bool{}
	for k, u := range units {
		if !bytes.Equal(u.Data, expect[k]) {
			c.Fail("C10/payloader/unit-differs/"+u.Kind, fmt.Sprintf("delivered unit %d differs from the input unit", k), wit("got", fw.Trunc(fw.Hex(u.Data), 200)))
			return
		}
		heads[u.First] = true
		t := expect[k][0] & 0x1F
		switch u.Kind {
		case "fu-a":
			hasFU = true
			if u.Last == u.First {
				c.Fail("C10/payloader/fu-a-single-fragment", "a unit was sent as one FU-A fragment", wit())
				return
			}
			if len(expect[k]) <= mtuOf[u.First] {
				c.Count("fu-a-used-although-unit-fits(not judged)", 1)
			}
		case "stap-a":
			hasStap = true
			if !stapA {
				c.Fail("C10/payloader/stap-a-although-disabled", "a STAP-A was emitted with DisableStapA", wit())
				return
			}
		}
		if stapA && (t == 7 || t == 8) && !ppsFirst[k] && pairs[k-int(t-7)] {
			// SPS at k (t==7) or PPS at k (t==8, pair starts at k-1)
			start := k - int(t-7)
			fits := 5+len(expect[start])+len(expect[start+1]) <= mtuOf[u.First] // the MTU of the call that sent them
			if fits && u.Kind != "stap-a" {
				c.Fail("C10/payloader/sps-pps-not-in-stap-a", "an SPS/PPS pair that fits one STAP-A was not aggregated", wit())
				return
			}
			if fits && units[start].First != units[start+1].First {
				c.Fail("C10/payloader/sps-pps-in-different-stap-a", "SPS and PPS of one pair travel in different packets", wit())
				return
			}
		}
	}
	c.Count("payload_streams_lossless", 1)
	// IsPartitionHead exactly on first payloads
	dp := &codecs.H264Packet{IsAVC: avc}
	var outStream []byte
	var outs [][]byte // what Unmarshal returned per payload, kept as returned and joined only when the stream is complete
	for k, pl := range payloads {
		var head bool
		var out []byte
		var err error
		if pv, st := fw.Guard(func() {
			head = dp.IsPartitionHead(pl)
			out, err = dp.Unmarshal(pl)
		}); pv != nil {
			c.Fail("C10/depacketizer/panic/"+fw.PanicFunc(st), fmt.Sprintf("H264Packet panicked on payloader output: %v", pv), wit("stack", st))
			return
		}
		c.Evals(2)
		if head != heads[k] {
			c.Fail("C10/ispartitionhead/wrong", fmt.Sprintf("IsPartitionHead(payload %d) = %v, first payload of a unit = %v", k, head, heads[k]), wit())
			return
		}
		if err != nil {
			c.Fail("C10/depacketizer/rejects-payloader-output", fmt.Sprintf("H264Packet rejects payload %d: %v", k, err), wit())
			return
		}
		outs = append(outs, out)
	}
	for _, o := range outs {
		outStream = append(outStream, o...)
	}
	want := ref.H264Frame(expect, avc)
	if !bytes.Equal(outStream, want) {
		c.Fail("C10/roundtrip/depacketized-stream-differs", "the depacketized stream is not the expected framing of the input units", wit("got", fw.Trunc(fw.Hex(outStream), 400), "want", fw.Trunc(fw.Hex(want), 400)))
		return
	}
	c.Count("roundtrips_exact", 1)
}

func truncList(l [][]byte, n int) [][]byte {
	out := make([][]byte, 0, len(l))
	for k, b := range l {
		if k >= 24 {
			break
		}
		if len(b) > n {
			b = b[:n]
		}
		out = append(out, b)
	}
	return out
}

func c10Dec(c *fw.Ctx, i int) {
	r := c.R
	avc := r.Bool()
	var units [][]byte
	var payloads [][]byte
	var desc []string
	n := r.Range(1, 8)
	fStream := r.Chance(1, 12) // some units carry forbidden_zero_bit = 1
	setF := func(u []byte) []byte {
		if fStream && r.Chance(1, 3) {
			u[0] |= 0x80
		}
		return u
	}
	for len(units) < n {
		switch r.Intn(3) {
		case 0: // single
			u := setF(gen.H264Unit(r, r.Range(1, 23), r.Pick(1, 2, 3, r.Range(1, 60))))
			if len(u) == 2 && r.Chance(1, 4) {
				u = u[:1] // a header-only NAL unit is a legal single NAL unit packet
			}
			units = append(units, u)
			payloads = append(payloads, u)
			desc = append(desc, fmt.Sprintf("single(t%d,%dB)", u[0]&0x1F, len(u)))
		case 1: // STAP-A
			k := r.Range(1, 6)
			pl := []byte{byte(r.Intn(4))<<5 | 24}
			big := r.Chance(1, 400) // an aggregation packet longer than 64 KiB
			for q := 0; q < k; q++ {
				u := setF(gen.H264Unit(r, r.Range(1, 23), r.Pick(2, 3, r.Range(1, 40))))
				if r.Chance(1, 6) {
					u = []byte{byte(r.Intn(4))<<5 | byte(r.Pick(10, 11, 9, 1))} // a header-only NAL unit (end of sequence / end of stream)
				}
				if big {
					u = gen.H264Unit(r, r.Range(1, 23), r.Pick(20000, 40000, 65535))
				}
				units = append(units, u)
				pl = append(pl, byte(len(u)>>8), byte(len(u)))
				pl = append(pl, u...)
			}
			payloads = append(payloads, pl)
			desc = append(desc, fmt.Sprintf("stap-a(%d units)", k))
		default: // FU-A
			u := setF(gen.H264Unit(r, r.Range(1, 23), r.Range(2, 200)))
			if r.Chance(1, 150) {
				u = gen.H264Unit(r, r.Range(1, 23), r.Pick(65535, 65536, 65537, 70000, 131073))
			}
			nf := r.Range(2, 8)
			body := u[1:]
			// cut points (empty fragments allowed)
			cuts := make([]int, nf-1)
			for q := range cuts {
				cuts[q] = r.Intn(len(body) + 1)
			}
			sortInts(cuts)
			prev := 0
			for q := 0; q < nf; q++ {
				end := len(body)
				if q < nf-1 {
					end = cuts[q]
				}
				h := u[0] & 0x1F
				if q == 0 {
					h |= 0x80
				}
				if q == nf-1 {
					h |= 0x40
				}
				pl := append([]byte{u[0]&0xE0 | 28, h}, body[prev:end]...)
				payloads = append(payloads, pl)
				prev = end
			}
			units = append(units, u)
			desc = append(desc, fmt.Sprintf("fu-a(t%d,%dB,%d fragments)", u[0]&0x1F, len(u), nf))
		}
	}
	// self-check of the independent encoder with the independent reassembler
	if back, err := ref.H264Depay(payloads); err != nil || len(back) != len(units) {
		c.HarnessBug(fmt.Sprintf("reference H264 encoder/reassembler disagree: %v", err))
		return
	}
	wit := func(extra ...any) map[string]any {
		m := fw.W("avc", avc, "stream", desc, "payloads", fw.HexList(truncList(payloads, 80)))
		for q := 0; q+1 < len(extra); q += 2 {
			m[fmt.Sprint(extra[q])] = extra[q+1]
		}
		return m
	}
	dp := &codecs.H264Packet{IsAVC: avc}
	var outStream []byte
	var outs [][]byte // what Unmarshal returned per payload, kept as returned and joined only when the stream is complete
	for k, pl := range payloads {
		var out []byte
		var err error
		if pv, st := fw.Guard(func() { out, err = dp.Unmarshal(fw.Exact(pl)) }); pv != nil {
			c.Fail("C10/decoder/panic/"+fw.PanicFunc(st), fmt.Sprintf("H264Packet panicked on a well-formed RFC 6184 payload: %v", pv), wit("stack", st))
			return
		}
		c.Evals(1)
		if err != nil {
			c.Fail(fmt.Sprintf("C10/decoder/rejects-well-formed/type-%d", pl[0]&0x1F), fmt.Sprintf("H264Packet rejects well-formed payload %d: %v", k, err), wit())
			return
		}
		outs = append(outs, out)
	}
	for _, o := range outs {
		outStream = append(outStream, o...)
	}
	want := ref.H264Frame(units, avc)
	if !bytes.Equal(outStream, want) {
		c.Fail("C10/decoder/stream-differs", "H264Packet does not reproduce the units of an independently encoded RFC 6184 stream", wit("got", fw.Trunc(fw.Hex(outStream), 400), "want", fw.Trunc(fw.Hex(want), 400)))
		return
	}
	c.Count("independent_streams_decoded_exactly", 1)
	pat := ""
	for k, d := range desc {
		if k < 5 {
			pat += d[:2]
		}
	}
	c.Shapef("dec|avc%v|%s|n%d", avc, pat, len(units))
	if c.WantSample() {
		c.Sample(map[string]any{"avc": avc, "stream": desc})
	}
}

func sortInts(a []int) {
	for i := 1; i < len(a); i++ {
		for j := i; j > 0 && a[j-1] > a[j]; j-- {
			a[j-1], a[j] = a[j], a[j-1]
		}
	}
}
