package props

import (
	"bytes"
	"fmt"
	"runtime"

	"github.com/pion/rtp"
	"github.com/pion/rtp/codecs"
	"github.com/pion/rtp/codecs/av1/frame"

	"verifharness/fw"
	"verifharness/gen"
)

func init() {
	fw.Register(&fw.Prop{
		ID:    "C09",
		Level: "exploration",
		Rule: "cases = payload sequences fed to one persistent receiver of each kind (H264Packet Annex-B/AVC, H265Packet with/without DONL and the four per-form " +
			"structs, VP8Packet, VP9Packet, AV1Depacketizer, fresh AV1Packet + persistent frame assembler, OpusPacket, and the zero-allocation variants) with " +
			"IsPartitionHead/IsPartitionTail calls interleaved: every byte string of length <= 2 (thorough: <= 3) exhaustively, random strings <= 64 bytes, " +
			"valid payload trains from the library payloaders with mutations, truncations, duplications and reorderings, nil and empty payloads; per-packet " +
			"formats are twinned against a fresh receiver (result, error-ness, metadata), stateful ones against a twin whose earlier inputs are overwritten after " +
			"every return, plus an address-range overlap monitor on the hooked retained state; non-trivial = sequences of >= 2 payloads with at least one accepted " +
			"payload; distinct = (receiver, payload-kind sequence prefix, outcome pattern)",
		Floor:     400,
		Technique: "runtime monitor: recover() guard, fresh-vs-reused receiver twin, scribble twin + address-range overlap monitor for retained fragment state; exhaustive short strings",
		Assumptions: []string{
			"metadata = exported fields / accessor values of the receiver, compared only when the fresh decode succeeds",
			"nil and empty results are equal; errors are compared by nil-ness only",
		},
		Strata: []fw.Stratum{
			{Name: "all-strings-len<=2", N: fw.Const(258, 258), Run: c09Short, Exhaustive: true},
			{Name: "all-strings-len=3", N: fw.Const(0, 65536), Run: c09Three, Exhaustive: true},
			{Name: "hostile-sequences", N: fw.Const(400000, 10000000), Run: c09Seq},
			{Name: "race-tripwire", N: fw.Const(4000, 200000), Run: c09Race, Race: true},
		},
	})
}

type c09Inst interface {
	Feed(p []byte) (out []byte, err error, meta string)
	Meta() string        // the receiver's metadata as it reads now
	Keep() func() string // what an application keeps of the last decode (a copy of the struct, the object Packet() returned): rendered again later
	Head(p []byte) bool
	Tail(m bool, p []byte) bool
	Retained() ([][]byte, bool)
}

// c09Reconf is implemented by receivers whose configuration the application may change in mid-stream.
type c09Reconf interface {
	Reconf()        // flip the setting on this receiver
	Fresh() c09Inst // a fresh receiver configured as this one is now
}

type c09Kind struct {
	name  string
	codec string
	mode  int // 0: twin against a fresh receiver, 1: scribble twin (stateful), 2: panic-only
	mk    func() c09Inst
}

// ---- adapters ----

type instH264 struct{ p *codecs.H264Packet }

func (i instH264) Feed(p []byte) ([]byte, error, string) { o, e := i.p.Unmarshal(p); return o, e, "" }
func (i instH264) Meta() string                          { return "" }
func (i instH264) Keep() func() string                   { return func() string { return "" } }
func (i instH264) Head(p []byte) bool                    { return i.p.IsPartitionHead(p) }
func (i instH264) Tail(m bool, p []byte) bool            { return i.p.IsPartitionTail(m, p) }
func (i instH264) Retained() ([][]byte, bool)            { return hookRetainedH264Packet(i.p) }

type instAV1D struct{ p *codecs.AV1Depacketizer }

func (i instAV1D) Feed(p []byte) ([]byte, error, string) {
	o, e := i.p.Unmarshal(p)
	return o, e, i.Meta()
}
func (i instAV1D) Meta() string               { return fmt.Sprintf("Z%v Y%v N%v", i.p.Z, i.p.Y, i.p.N) }
func (i instAV1D) Keep() func() string        { m := i.Meta(); return func() string { return m } }
func (i instAV1D) Head(p []byte) bool         { return i.p.IsPartitionHead(p) }
func (i instAV1D) Tail(m bool, p []byte) bool { return i.p.IsPartitionTail(m, p) }
func (i instAV1D) Retained() ([][]byte, bool) { return hookRetainedAV1(i.p) }

type instAV1P struct {
	f frame.AV1
}

func (i *instAV1P) Feed(p []byte) ([]byte, error, string) {
	pkt := &codecs.AV1Packet{}
	o, e := pkt.Unmarshal(p)
	if e != nil {
		return o, e, ""
	}
	obus, e2 := i.f.ReadFrames(pkt)
	n := 0
	for _, ob := range obus {
		n += len(ob)
	}
	return o, e2, fmt.Sprint(len(obus), n)
}
func (i *instAV1P) Meta() string               { return "" }
func (i *instAV1P) Keep() func() string        { return func() string { return "" } }
func (i *instAV1P) Head(p []byte) bool         { return true }
func (i *instAV1P) Tail(m bool, p []byte) bool { return m }
func (i *instAV1P) Retained() ([][]byte, bool) { return nil, false }

type instVP8 struct{ p *codecs.VP8Packet }

func (i instVP8) Feed(p []byte) ([]byte, error, string) {
	o, e := i.p.Unmarshal(p)
	return o, e, i.Meta()
}
func (i instVP8) Meta() string {
	v := i.p
	return fmt.Sprintf("X%d N%d S%d PID%d I%d L%d T%d K%d pic%d tl0 %d tid%d y%d key%d pl%s", v.X, v.N, v.S, v.PID, v.I, v.L, v.T, v.K, v.PictureID, v.TL0PICIDX, v.TID, v.Y, v.KEYIDX, fw.Hex(v.Payload))
}
func (i instVP8) Keep() func() string        { cp := *i.p; return instVP8{&cp}.Meta }
func (i instVP8) Head(p []byte) bool         { return i.p.IsPartitionHead(p) }
func (i instVP8) Tail(m bool, p []byte) bool { return i.p.IsPartitionTail(m, p) }
func (i instVP8) Retained() ([][]byte, bool) { return nil, false }

type instVP9 struct{ p *codecs.VP9Packet }

func (i instVP9) Feed(p []byte) ([]byte, error, string) {
	o, e := i.p.Unmarshal(p)
	return o, e, i.Meta()
}
func (i instVP9) Meta() string {
	v := i.p
	return fmt.Sprintf("I%v P%v L%v F%v B%v E%v V%v Z%v pic%d tid%d U%v sid%d D%v pdiff%v tl0 %d NS%d Y%v G%v NG%d W%v H%v pgtid%v pgu%v pgpdiff%v pl%s",
		v.I, v.P, v.L, v.F, v.B, v.E, v.V, v.Z, v.PictureID, v.TID, v.U, v.SID, v.D, v.PDiff, v.TL0PICIDX, v.NS, v.Y, v.G, v.NG, v.Width, v.Height, v.PGTID, v.PGU, v.PGPDiff, fw.Hex(v.Payload))
}
func (i instVP9) Keep() func() string        { cp := *i.p; return instVP9{&cp}.Meta }
func (i instVP9) Head(p []byte) bool         { return i.p.IsPartitionHead(p) }
func (i instVP9) Tail(m bool, p []byte) bool { return i.p.IsPartitionTail(m, p) }
func (i instVP9) Retained() ([][]byte, bool) { return nil, false }

func u16p(p *uint16) string {
	if p == nil {
		return "nil"
	}
	return fmt.Sprint(*p)
}

func u8p(p *uint8) string {
	if p == nil {
		return "nil"
	}
	return fmt.Sprint(*p)
}

func metaSingle(v *codecs.H265SingleNALUnitPacket) string {
	return fmt.Sprintf("single hdr%#04x donl%s pl%s", uint16(v.PayloadHeader()), u16p(v.DONL()), fw.Hex(v.Payload()))
}

func metaAP(v *codecs.H265AggregationPacket) string {
	s := "ap"
	if f := v.FirstUnit(); f != nil {
		s += fmt.Sprintf(" first(donl%s size%d %s)", u16p(f.DONL()), f.NALUSize(), fw.Hex(f.NalUnit()))
	}
	for _, o := range v.OtherUnits() {
		s += fmt.Sprintf(" other(dond%s size%d %s)", u8p(o.DOND()), o.NALUSize(), fw.Hex(o.NalUnit()))
	}
	return s
}

func metaFU(v *codecs.H265FragmentationUnitPacket) string {
	return fmt.Sprintf("fu hdr%#04x fu%#02x donl%s pl%s", uint16(v.PayloadHeader()), uint8(v.FuHeader()), u16p(v.DONL()), fw.Hex(v.Payload()))
}

func metaPACI(v *codecs.H265PACIPacket) string {
	ts := "nil"
	if t := v.TSCI(); t != nil {
		ts = fmt.Sprintf("%#x", uint32(*t))
	}
	return fmt.Sprintf("paci hdr%#04x A%v c%d phs%d F%v%v%v Y%v phes%s pl%s tsci%s", uint16(v.PayloadHeader()), v.A(), v.CType(), v.PHSsize(), v.F0(), v.F1(), v.F2(), v.Y(), fw.Hex(v.PHES()), fw.Hex(v.Payload()), ts)
}

type instH265 struct{ p *codecs.H265Packet }

func (i instH265) Feed(p []byte) ([]byte, error, string) {
	o, e := i.p.Unmarshal(p)
	return o, e, i.Meta()
}
func (i instH265) Keep() func() string {
	kept := i.p.Packet() // the object the application was handed
	return func() string { return h265Render(kept) }
}
func (i instH265) Meta() string { return h265Render(i.p.Packet()) }

func h265Render(pkt any) string {
	m := "none"
	switch v := pkt.(type) {
	case *codecs.H265SingleNALUnitPacket:
		m = metaSingle(v)
	case *codecs.H265AggregationPacket:
		m = metaAP(v)
	case *codecs.H265FragmentationUnitPacket:
		m = metaFU(v)
	case *codecs.H265PACIPacket:
		m = metaPACI(v)
	}
	return m
}
func (i instH265) Head(p []byte) bool         { return i.p.IsPartitionHead(p) }
func (i instH265) Tail(m bool, p []byte) bool { return i.p.IsPartitionTail(m, p) }
func (i instH265) Retained() ([][]byte, bool) { return nil, false }

// instH265T: an H265Packet whose DONL setting is flipped between packets.
type instH265T struct {
	instH265
	donl *bool
}

func (i instH265T) Reconf() { *i.donl = !*i.donl; i.p.WithDONL(*i.donl) }
func (i instH265T) Fresh() c09Inst {
	p := &codecs.H265Packet{}
	p.WithDONL(*i.donl)
	d := *i.donl
	return instH265T{instH265{p}, &d}
}

// instH264T: an H264Packet whose exported IsAVC field is flipped between packets (scribble twin: both twins flip together).
type instH264T struct{ instH264 }

func (i instH264T) Reconf()        { i.p.IsAVC = !i.p.IsAVC }
func (i instH264T) Fresh() c09Inst { return instH264T{instH264{&codecs.H264Packet{IsAVC: i.p.IsAVC}}} }

type instForm struct {
	feed func(p []byte) ([]byte, error, string)
	meta func() string
}

func (i instForm) Meta() string { return i.meta() }
func (i instForm) Keep() func() string {
	m := i.meta() // the per-form structs hand out their fields through accessors only: what was read is kept as read
	return func() string { return m }
}

func (i instForm) Feed(p []byte) ([]byte, error, string) { return i.feed(p) }
func (i instForm) Head(p []byte) bool                    { return (&codecs.H265Packet{}).IsPartitionHead(p) }
func (i instForm) Tail(m bool, p []byte) bool            { return m }
func (i instForm) Retained() ([][]byte, bool)            { return nil, false }

type instOpus struct{ p *codecs.OpusPacket }

func (i instOpus) Feed(p []byte) ([]byte, error, string) {
	o, e := i.p.Unmarshal(p)
	return o, e, i.Meta()
}
func (i instOpus) Meta() string               { return fw.Hex(i.p.Payload) }
func (i instOpus) Keep() func() string        { cp := *i.p; return instOpus{&cp}.Meta }
func (i instOpus) Head(p []byte) bool         { return i.p.IsPartitionHead(p) }
func (i instOpus) Tail(m bool, p []byte) bool { return i.p.IsPartitionTail(m, p) }
func (i instOpus) Retained() ([][]byte, bool) { return nil, false }

var _ rtp.Depacketizer = (*codecs.H264Packet)(nil)

var c09Kinds = []c09Kind{
	{"h264-annexb", "h264", 1, func() c09Inst { return instH264{&codecs.H264Packet{}} }},
	{"h264-avc", "h264", 1, func() c09Inst { return instH264{&codecs.H264Packet{IsAVC: true}} }},
	{"av1depacketizer", "av1", 1, func() c09Inst { return instAV1D{&codecs.AV1Depacketizer{}} }},
	{"av1packet+frame", "av1", 2, func() c09Inst { return &instAV1P{} }},
	{"vp8", "vp8", 0, func() c09Inst { return instVP8{&codecs.VP8Packet{}} }},
	{"vp9", "vp9", 0, func() c09Inst { return instVP9{&codecs.VP9Packet{}} }},
	{"h265", "h265", 0, func() c09Inst { return instH265{&codecs.H265Packet{}} }},
	{"h265-donl", "h265", 0, func() c09Inst { p := &codecs.H265Packet{}; p.WithDONL(true); return instH265{p} }},
	{"h265-donl-toggled", "h265", 0, func() c09Inst { d := false; return instH265T{instH265{&codecs.H265Packet{}}, &d} }},
	{"h264-framing-toggled", "h264", 1, func() c09Inst { return instH264T{instH264{&codecs.H264Packet{}}} }},
	{"h265-single", "h265", 0, func() c09Inst {
		v := &codecs.H265SingleNALUnitPacket{}
		return instForm{func(p []byte) ([]byte, error, string) { o, e := v.Unmarshal(p); return o, e, metaSingle(v) }, func() string { return metaSingle(v) }}
	}},
	{"h265-single-donl", "h265", 0, func() c09Inst {
		v := &codecs.H265SingleNALUnitPacket{}
		v.WithDONL(true)
		return instForm{func(p []byte) ([]byte, error, string) { o, e := v.Unmarshal(p); return o, e, metaSingle(v) }, func() string { return metaSingle(v) }}
	}},
	{"h265-ap", "h265", 0, func() c09Inst {
		v := &codecs.H265AggregationPacket{}
		return instForm{func(p []byte) ([]byte, error, string) { o, e := v.Unmarshal(p); return o, e, metaAP(v) }, func() string { return metaAP(v) }}
	}},
	{"h265-ap-donl", "h265", 0, func() c09Inst {
		v := &codecs.H265AggregationPacket{}
		v.WithDONL(true)
		return instForm{func(p []byte) ([]byte, error, string) { o, e := v.Unmarshal(p); return o, e, metaAP(v) }, func() string { return metaAP(v) }}
	}},
	{"h265-fu", "h265", 0, func() c09Inst {
		v := &codecs.H265FragmentationUnitPacket{}
		return instForm{func(p []byte) ([]byte, error, string) { o, e := v.Unmarshal(p); return o, e, metaFU(v) }, func() string { return metaFU(v) }}
	}},
	{"h265-fu-donl", "h265", 0, func() c09Inst {
		v := &codecs.H265FragmentationUnitPacket{}
		v.WithDONL(true)
		return instForm{func(p []byte) ([]byte, error, string) { o, e := v.Unmarshal(p); return o, e, metaFU(v) }, func() string { return metaFU(v) }}
	}},
	{"h265-paci", "h265", 0, func() c09Inst {
		v := &codecs.H265PACIPacket{}
		return instForm{func(p []byte) ([]byte, error, string) { o, e := v.Unmarshal(p); return o, e, metaPACI(v) }, func() string { return metaPACI(v) }}
	}},
	{"opus", "opus", 0, func() c09Inst { return instOpus{&codecs.OpusPacket{}} }},
	// zero-allocation variants: panic-only
	{"h264-zeroalloc", "h264", 2, func() c09Inst { p := &codecs.H264Packet{}; p.SetZeroAllocation(true); return instH264{p} }},
	{"vp8-zeroalloc", "vp8", 2, func() c09Inst { p := &codecs.VP8Packet{}; p.SetZeroAllocation(true); return instVP8{p} }},
	{"vp9-zeroalloc", "vp9", 2, func() c09Inst { p := &codecs.VP9Packet{}; p.SetZeroAllocation(true); return instVP9{p} }},
	{"h265-zeroalloc", "h265", 2, func() c09Inst { p := &codecs.H265Packet{}; p.SetZeroAllocation(true); return instH265{p} }},
	{"av1depacketizer-zeroalloc", "av1", 2, func() c09Inst { p := &codecs.AV1Depacketizer{}; p.SetZeroAllocation(true); return instAV1D{p} }},
}

// c09Session holds the persistent receiver(s) of one kind.
type c09Session struct {
	kind      c09Kind
	a, b      c09Inst // a: the persistent receiver; b: scribble twin (mode 1)
	other     c09Inst // an unrelated stream on another receiver of the same kind
	callerMem []memRange
	keepAlive [][]byte
	history   []string
	accepted  int
	outcomes  []byte
	feeds     int
	rbuf      []byte // the one receive buffer of the session's read loop
	kp        keeper
	release   []func() // write-protected inputs are handed back when the session ends
}

// done releases the write-protected inputs of the session (the receivers may have aliased them until now).
func (s *c09Session) done() {
	for _, f := range s.release {
		f()
	}
	s.release = nil
}

func newC09Session(k c09Kind) *c09Session {
	s := &c09Session{kind: k, a: k.mk()}
	if k.mode == 1 {
		s.b = k.mk()
	}
	return s
}

// feed judges one payload. It returns false after a violation.
func (s *c09Session) feed(c *fw.Ctx, p []byte, r *fw.Rand) bool {
	name := s.kind.name
	if len(s.history) < 24 {
		s.history = append(s.history, fw.Trunc(fw.Hex(p), 140))
	}
	wit := func(extra ...any) map[string]any {
		m := fw.W("receiver", name, "payload", fw.Hex(p), "earlier_payloads_on_this_receiver", append([]string{}, s.history[:len(s.history)-minI(1, len(s.history))]...))
		for q := 0; q+1 < len(extra); q += 2 {
			m[fmt.Sprint(extra[q])] = extra[q+1]
		}
		return m
	}
	cp := func() []byte { return fw.Exact(p) }
	if rc, ok := s.a.(c09Reconf); ok && len(s.history) > 1 && (r == nil && len(s.history)%3 == 0 || r != nil && r.Chance(1, 4)) {
		// the application changes the receiver's configuration between two packets; the twin follows
		rc.Reconf()
		if s.b != nil {
			s.b.(c09Reconf).Reconf()
		}
		c.Count("configuration_changes_in_mid_stream", 1)
	}
	// interleaved predicate calls
	if r == nil || r.Chance(1, 2) {
		if pv, st := fw.Guard(func() {
			s.a.Head(cp())
			s.a.Tail(true, cp())
			s.a.Tail(false, cp())
		}); pv != nil {
			c.Fail("C09/"+name+"/panic/IsPartitionHeadOrTail/"+fw.PanicFunc(st), fmt.Sprintf("IsPartitionHead/IsPartitionTail panicked: %v", pv), wit("stack", st))
			return false
		}
		c.Evals(3)
	}
	// the read loop of a receiver: every payload arrives in the SAME receive buffer, and the application asks IsPartitionHead about
	// it before it unmarshals it. The predicates are functions of the payload they are given: a fresh receiver answers the same.
	if len(p) > 0 && len(p) <= 2048 && s.kind.mode != 2 {
		if s.rbuf == nil {
			s.rbuf = make([]byte, 2048)
		}
		rb := s.rbuf[:len(p):len(p)]
		copy(rb, p)
		var hA, tA, hF, tF bool
		if pv, st := fw.Guard(func() {
			hA, tA = s.a.Head(rb), s.a.Tail(false, rb)
			f := s.kind.mk()
			hF, tF = f.Head(cp()), f.Tail(false, cp())
		}); pv != nil {
			c.Fail("C09/"+name+"/panic/IsPartitionHeadOrTail/"+fw.PanicFunc(st), fmt.Sprintf("IsPartitionHead/IsPartitionTail panicked: %v", pv), wit("stack", st))
			return false
		}
		if hA != hF || tA != tF {
			c.Fail("C09/"+name+"/reuse/predicate-differs-from-a-fresh-receiver", fmt.Sprintf("IsPartitionHead/IsPartitionTail(false) on a used receiver (payload in the reused receive buffer): %v/%v, on a fresh receiver: %v/%v", hA, tA, hF, tF), wit())
			return false
		}
		c.Count("predicates_asked_on_the_reused_receive_buffer", 1)
	}
	inA := cp()
	canary := func() bool { return false }
	roInput := false
	s.feeds++
	if len(p) > 0 && (c.Index*7+s.feeds)%64 == 7 {
		// a write-protected input: any store into it faults, also one that is undone before the call returns
		if ro, release, ok := fw.ReadOnly(p); ok {
			inA, roInput = ro, true
			s.release = append(s.release, release)
			c.Count("unmarshal_calls_with_write_protected_input", 1)
		}
	}
	if len(s.history)%2 == 0 && !roInput {
		inA, canary = fw.Roomy(p, 24)
	}
	var outA []byte
	var errA error
	var metaA string
	if pv, st, fault := fw.GuardFault(func() { outA, errA, metaA = s.a.Feed(inA) }); pv != nil {
		if fault && roInput {
			c.Fail("C09/"+name+"/input-modified/write-protected-input/"+fw.PanicFunc(st), "the depacketizer stores into the caller's payload buffer (the payload was write-protected: the store faulted)", wit("stack", st))
			return false
		}
		c.Fail("C09/"+name+"/panic/Unmarshal/"+fw.PanicFunc(st), fmt.Sprintf("Unmarshal panicked on a reused receiver: %v", pv), wit("stack", st))
		return false
	}
	c.Evals(1)
	c.Count("unmarshal_calls_judged", 1)
	if len(outA) > 0 {
		// an unrelated stream on another receiver of the same kind: what this receiver returned must not change
		keep := append([]byte(nil), outA...)
		if s.other == nil {
			s.other = s.kind.mk()
		}
		oin := append([]byte(nil), p...)
		for k := 1; k < len(oin); k++ {
			oin[k] ^= 0x5A
		}
		fw.Guard(func() { s.other.Feed(oin) })
		if !bytes.Equal(outA, keep) {
			c.Fail("C09/"+name+"/result-changes-when-another-receiver-is-used", "the bytes returned by Unmarshal changed after an Unmarshal call on ANOTHER receiver of the same kind", wit())
			return false
		}
	}
	if canary() || !bytes.Equal(inA, p) {
		c.Fail("C09/"+name+"/input-modified", "the depacketizer wrote into the caller's payload buffer (within len or into its spare capacity)", wit())
		return false
	}
	oc := byte('e')
	if errA == nil {
		oc = 'k'
		s.accepted++
	}
	if len(s.outcomes) < 6 {
		s.outcomes = append(s.outcomes, oc)
	}
	switch s.kind.mode {
	case 0:
		fresh := s.kind.mk()
		if rc, ok := s.a.(c09Reconf); ok {
			fresh = rc.Fresh()
		}
		var outF []byte
		var errF error
		var metaF string
		if pv, st := fw.Guard(func() { outF, errF, metaF = fresh.Feed(cp()) }); pv != nil {
			c.Fail("C09/"+name+"/panic/Unmarshal/"+fw.PanicFunc(st), fmt.Sprintf("Unmarshal panicked on a fresh receiver: %v", pv), wit("stack", st))
			return false
		}
		c.Evals(1)
		if (errA == nil) != (errF == nil) {
			c.Fail("C09/"+name+"/reuse/error-differs", fmt.Sprintf("reused receiver: err=%v, fresh receiver: err=%v", errA, errF), wit())
			return false
		}
		if !bytes.Equal(outA, outF) {
			c.Fail("C09/"+name+"/reuse/result-differs", "the reused receiver returns other bytes than a fresh one", wit("reused", fw.Hex(outA), "fresh", fw.Hex(outF)))
			return false
		}
		if errF == nil && metaA != metaF {
			c.Fail("C09/"+name+"/reuse/metadata-differs", "the reused receiver reports other metadata than a fresh one", wit("reused", fw.Trunc(metaA, 600), "fresh", fw.Trunc(metaF, 600)))
			return false
		}
		c.Count("reuse_pairs_equal", 1)
		if errF == nil && (r == nil || r.Chance(1, 2)) {
			// the predicates are queries: asked about OTHER payloads they change neither what Unmarshal returned nor the metadata the receiver shows
			keepOut := append([]byte(nil), outA...)
			q1 := append([]byte(nil), p...)
			for k := 0; k < len(q1) && k < 4; k++ {
				q1[k] ^= 0xFF
			}
			q2 := append([]byte(nil), p...)
			if len(q2) > 0 {
				q2[0] ^= 0x10
			}
			if pv, st := fw.Guard(func() {
				for _, q := range [][]byte{q1, q2, nil} {
					s.a.Head(q)
					s.a.Tail(true, q)
					s.a.Tail(false, q)
				}
			}); pv != nil {
				c.Fail("C09/"+name+"/panic/IsPartitionHeadOrTail/"+fw.PanicFunc(st), fmt.Sprintf("IsPartitionHead/IsPartitionTail panicked: %v", pv), wit("stack", st))
				return false
			}
			if m2 := s.a.Meta(); m2 != metaF {
				c.Fail("C09/"+name+"/reuse/metadata-changed-by-IsPartitionHead-or-Tail", "after IsPartitionHead/IsPartitionTail calls about other payloads the receiver shows other metadata than a fresh receiver that decoded the same payload",
					wit("reused", fw.Trunc(m2, 600), "fresh", fw.Trunc(metaF, 600)))
				return false
			}
			if !bytes.Equal(outA, keepOut) {
				c.Fail("C09/"+name+"/result-changed-by-IsPartitionHead-or-Tail", "the bytes returned by Unmarshal changed during IsPartitionHead/IsPartitionTail calls", wit())
				return false
			}
			c.Count("metadata_stable_across_predicate_calls", 1)
		}
	case 1:
		inB := cp()
		var outB []byte
		var errB error
		if pv, st := fw.Guard(func() { outB, errB, _ = s.b.Feed(inB) }); pv != nil {
			c.Fail("C09/"+name+"/panic/Unmarshal/"+fw.PanicFunc(st), fmt.Sprintf("Unmarshal panicked (twin): %v", pv), wit("stack", st))
			return false
		}
		c.Evals(1)
		if (errA == nil) != (errB == nil) || !bytes.Equal(outA, outB) {
			c.Fail("C09/"+name+"/state/later-result-changes-when-earlier-input-overwritten", "the twin whose earlier input buffers were overwritten after Unmarshal returned decodes this payload differently",
				wit("inputs_preserved", fw.Trunc(fw.Hex(outA), 400), "inputs_overwritten", fw.Trunc(fw.Hex(outB), 400), "err_preserved", fmt.Sprint(errA), "err_overwritten", fmt.Sprint(errB)))
			return false
		}
		s.callerMem = append(s.callerMem, rangeOfBytes(inA))
		s.keepAlive = append(s.keepAlive, inA)
		if ret, ok := s.a.Retained(); ok {
			c.Count("retained_state_overlap_checks(hook)", 1)
			for _, rs := range ret {
				rr := rangeOfBytes(rs)
				for _, m := range s.callerMem {
					if overlaps(rr.lo, rr.hi, m.lo, m.hi) {
						c.Fail("C09/"+name+"/state/retained-state-aliases-input", "the fragment buffer kept between calls lies inside a caller's input buffer", wit("retained_len", len(rs)))
						return false
					}
				}
			}
		}
		// overwrite B's input now that Unmarshal has returned
		for k := range inB {
			inB[k] = ^inB[k]
		}
		c.Count("scribble_twin_steps_equal", 1)
	}
	// what earlier calls returned is the caller's: the bytes and the decoded object stay what they were, whatever is decoded next
	if errA == nil && len(s.kp.items) < 64 {
		s.kp.add(fmt.Sprintf("the bytes returned by Unmarshal call %d on this receiver", s.feeds), outA)
		s.kp.addMeta(fmt.Sprintf("the decoded packet kept after Unmarshal call %d on this receiver", s.feeds), s.a.Keep())
	}
	if what, ch := s.kp.changed(); ch {
		c.Fail("C09/"+name+"/earlier-result-changed-by-a-later-call", "a later call on the receiver changed "+what, wit())
		return false
	}
	runtime.KeepAlive(s.keepAlive)
	return true
}

func (s *c09Session) shape(c *fw.Ctx, kinds string) {
	if len(s.history) >= 2 && s.accepted > 0 {
		c.Shapef("%s|%s|%s", s.kind.name, kinds, s.outcomes)
	}
}

func c09Short(c *fw.Ctx, i int) {
	for _, k := range c09Kinds {
		s := newC09Session(k)
		defer s.done()
		feed := func(b []byte) bool { return s.feed(c, b, nil) }
		switch {
		case i == 0:
			if !feed(nil) || !feed([]byte{}) || !feed(nil) {
				return
			}
		case i == 1:
			for b := 0; b < 256; b++ {
				if !feed([]byte{byte(b)}) {
					return
				}
			}
		default:
			for b := 0; b < 256; b++ {
				if !feed([]byte{byte(i - 2), byte(b)}) {
					return
				}
			}
		}
		s.shape(c, fmt.Sprintf("short%d", minI(i, 2)))
	}
}

func c09Three(c *fw.Ctx, i int) {
	for _, k := range c09Kinds {
		s := newC09Session(k)
		defer s.done()
		for b := 0; b < 256; b++ {
			if !s.feed(c, []byte{byte(i >> 8), byte(i), byte(b)}, nil) {
				return
			}
		}
		if i%257 == 0 {
			s.shape(c, "three")
		}
	}
}

// c09Train produces valid payloads for a codec from the library payloaders.
func c09Train(r *fw.Rand, codec string) [][]byte {
	mtu := r.Pick(8, 12, 16, 24, 40, 100, r.Range(6, 64))
	var out [][]byte
	fw.Guard(func() {
		switch codec {
		case "h264":
			var units [][]byte
			for k := r.Range(1, 4); k > 0; k-- {
				units = append(units, gen.H264Unit(r, r.Pick(1, 5, 7, 8, 6), gen.H264Size(r, mtu)))
			}
			in, _ := gen.AnnexB(r, units)
			out = (&codecs.H264Payloader{}).Payload(uint16(mtu), in)
		case "h265":
			var units [][]byte
			for k := r.Range(1, 4); k > 0; k-- {
				units = append(units, c14Unit(r, c14Size(r, mtu)))
			}
			in, _ := gen.AnnexB(r, units)
			out = (&codecs.H265Payloader{AddDONL: r.Chance(1, 3)}).Payload(uint16(mtu), in)
			if r.Chance(1, 4) { // a PACI packet
				out = append(out, append([]byte{50 << 1, 1, byte(r.Intn(256)), byte(r.Intn(256))}, r.Bytes(r.Range(1, 40))...))
			}
		case "vp8":
			out = (&codecs.VP8Payloader{EnablePictureID: r.Bool()}).Payload(uint16(mtu), r.Bytes(r.Range(1, 3*mtu)))
			if r.Bool() {
				d := c11RandomDesc(r)
				out = append(out, append(d, r.Bytes(r.Range(0, 6))...))
			}
		case "vp9":
			if r.Bool() {
				out = (&codecs.VP9Payloader{FlexibleMode: true, InitialPictureIDFn: func() uint16 { return 9 }}).Payload(uint16(mtu), r.Bytes(r.Range(1, 3*mtu)))
			}
			for k := r.Range(1, 3); k > 0; k-- {
				d := c12Desc(r)
				out = append(out, append(d.Encode(), r.Bytes(r.Range(0, 6))...))
			}
		case "av1":
			obus := c13OBUs(r, mtu)
			var in []byte
			for k := range obus {
				in = append(in, obus[k].Raw(true)...)
			}
			out = (&codecs.AV1Payloader{}).Payload(uint16(mtu), in)
		default:
			out = [][]byte{r.Bytes(r.Range(1, 40))}
		}
	})
	return out
}

func c11RandomDesc(r *fw.Rand) []byte {
	b := []byte{byte(r.Intn(256))}
	if b[0]&0x80 != 0 {
		b = append(b, byte(r.Intn(256)))
		b = append(b, r.Bytes(r.Intn(5))...)
	}
	return b
}

func c09Seq(c *fw.Ctx, i int) {
	r := c.R
	kind := c09Kinds[i%len(c09Kinds)]
	s := newC09Session(kind)
	defer s.done()
	n := r.Range(1, 20)
	var pool [][]byte
	kinds := ""
	for len(s.history) < n {
		var p []byte
		pk := byte('r')
		switch r.Intn(10) {
		case 0:
			if r.Bool() {
				p = nil
			} else {
				p = []byte{}
			}
			pk = '0'
		case 1, 2:
			p = r.Bytes(r.Pick(1, 2, 3, 4, r.Range(1, 64)))
			if r.Chance(1, 60) {
				p = c09Huge(r, kind.codec)
				pk = 'H'
			} else if kind.codec == "av1" && r.Chance(1, 4) {
				// aggregation header, then length fields / OBU size fields that are LEB128 monsters
				p = []byte{byte(r.Pick(0x00, 0x10, 0x20, 0x30, 0x40, 0x80, 0xC0, r.Intn(256)))}
				for k := r.Range(1, 3); k > 0; k-- {
					if r.Bool() {
						p = append(p, gen.LEBMonster(r)...)
					} else {
						p = append(p, byte(r.Range(1, 12)))
					}
					p = append(p, byte(r.Pick(0x32, 0x30, 0x0A, 0x36, r.Intn(256))))
					if r.Bool() {
						p = append(p, gen.LEBMonster(r)...)
					}
					p = append(p, r.Bytes(r.Range(0, 6))...)
				}
				pk = 'L'
			}
		default:
			if len(pool) == 0 {
				pool = c09Train(r, kind.codec)
				if len(pool) == 0 {
					pool = [][]byte{r.Bytes(r.Range(1, 30))}
				}
				switch r.Intn(4) {
				case 0: // reorder
					perm := r.Perm(len(pool))
					np := make([][]byte, len(pool))
					for a, b := range perm {
						np[a] = pool[b]
					}
					pool = np
				case 1: // duplicate one
					k := r.Intn(len(pool))
					pool = append(pool[:k+1], pool[k:]...)
				case 2: // drop one
					k := r.Intn(len(pool))
					pool = append(pool[:k:k], pool[k+1:]...)
					if len(pool) == 0 {
						pool = [][]byte{{}}
					}
				}
			}
			p = pool[0]
			pool = pool[1:]
			pk = 'v'
			switch r.Intn(6) {
			case 0:
				p = gen.Mutate(r, p)
				pk = 'm'
			case 1:
				if len(p) > 0 {
					p = p[:r.Intn(len(p))]
					pk = 't'
				}
			}
		}
		if len(kinds) < 6 {
			kinds += string(pk)
		}
		if !s.feed(c, p, r) {
			return
		}
	}
	if kind.codec == "av1" && i%400 < len(c09Kinds) {
		// an OBU whose own size field announces S bytes, spread over continuation packets that deliver fewer or more than S
		S := r.Pick(16384, 20000, 65536, 100000)
		deliver := S + r.Pick(-1, 1, 2, 100, 40000, -40000, -S+10)
		if deliver < 1 {
			deliver = 1
		}
		first := append([]byte{0x50, 0x32}, gen.LEB(uint64(S))...) // Y=1, W=1; OBU_FRAME with has_size_field
		first = append(first, r.Bytes(minI(deliver, 3000))...)
		sent := minI(deliver, 3000)
		if !s.feed(c, first, r) {
			return
		}
		for sent < deliver {
			nb := minI(deliver-sent, r.Pick(1200, 30000, 60000))
			h := byte(0x90) // Z=1, W=1
			if sent+nb < deliver {
				h |= 0x40
			}
			sent += nb
			if !s.feed(c, append([]byte{h}, r.Bytes(nb)...), r) {
				return
			}
		}
		c.Count("obus_delivering_other_than_their_announced_size", 1)
	}
	if (kind.codec == "av1" || kind.codec == "h264") && i%8000 < len(c09Kinds) {
		// one unit reassembled from many large fragments: its total passes 2^21 bytes, where the size written in front of the
		// reassembled unit needs one more byte
		total := r.Pick(1<<21-1, 1<<21, 1<<21+1, 1<<21+70000)
		frag := r.Pick(60000, 65535, 40000)
		sent := 0
		for k := 0; sent < total; k++ {
			nb := frag
			if total-sent < nb {
				nb = total - sent
			}
			last := sent+nb >= total
			var p []byte
			if kind.codec == "av1" {
				h := byte(0x10) // W=1
				if k > 0 {
					h |= 0x80 // Z
				}
				if !last {
					h |= 0x40 // Y
				}
				p = append([]byte{h}, r.Bytes(nb)...)
				if k == 0 {
					p[1] = 6 << 3 // OBU_FRAME, no size field
				}
			} else {
				fh := byte(5)
				if k == 0 {
					fh |= 0x80
				}
				if last {
					fh |= 0x40
				}
				p = append([]byte{0x60 | 28, fh}, r.Bytes(nb)...)
			}
			sent += nb
			if !s.feed(c, p, r) {
				return
			}
		}
		c.Count("units_reassembled_to_2MiB_and_more", 1)
	}
	s.shape(c, kinds)
	if c.WantSample() {
		c.Sample(map[string]any{"receiver": kind.name, "payloads": s.history, "accepted": s.accepted})
	}
}

// c09Race: overwrite the previous payload while the next Unmarshal runs.
func c09Race(c *fw.Ctx, i int) {
	r := c.R
	stateful := []c09Kind{c09Kinds[0], c09Kinds[1], c09Kinds[2]}
	kind := stateful[i%len(stateful)]
	inst := kind.mk()
	train := c09Train(r, kind.codec)
	var prev []byte
	for _, p := range train {
		in := append([]byte{}, p...)
		// pad so that the tripwire buffers are >= 64 bytes where the format allows trailing bytes inside a fragment
		done := make(chan struct{})
		stop := make(chan struct{})
		if prev != nil && len(prev) >= 8 {
			pv := prev
			scr := r.Bytes(len(pv))
			go func() {
				defer close(done)
				for {
					select {
					case <-stop:
						return
					default:
						copy(pv, scr)
					}
				}
			}()
		} else {
			close(done)
		}
		fw.Guard(func() { inst.Feed(in) })
		close(stop)
		<-done
		c.Evals(1)
		prev = in
	}
	c.Count("race_tripwire_trains", 1)
	c.Shapef("race|%s|n%d", kind.name, minI(len(train), 8))
}

// c09Huge builds a payload longer than 64 KiB (16-bit offsets must not be involved anywhere).
func c09Huge(r *fw.Rand, codec string) []byte {
	n := r.Pick(65536, 65537, 66000, 70000, 131073)
	switch codec {
	case "h264":
		switch r.Intn(3) {
		case 0: // STAP-A whose units cross byte 65536
			p := []byte{24}
			for len(p) < n {
				u := gen.H264Unit(r, r.Range(1, 23), r.Pick(900, 4000, 20000, 60000, 65535))
				p = append(p, byte(len(u)>>8), byte(len(u)))
				p = append(p, u...)
			}
			return p
		case 1: // one FU-A fragment
			p := append([]byte{28, byte(r.Pick(0x85, 0x05, 0x45))}, r.Bytes(n)...)
			return p
		}
		return gen.H264Unit(r, r.Range(1, 23), n)
	case "h265":
		switch r.Intn(3) {
		case 0: // aggregation packet
			p := []byte{48 << 1, 1}
			for len(p) < n {
				u := c14Unit(r, r.Pick(900, 20000, 65535))
				p = append(p, byte(len(u)>>8), byte(len(u)))
				p = append(p, u...)
			}
			return p
		case 1:
			return append([]byte{49 << 1, 1, byte(r.Pick(0x81, 0x01, 0x41))}, r.Bytes(n)...)
		}
		return c14Unit(r, n)
	case "av1":
		p := []byte{byte(r.Pick(0x10, 0x00, 0x50, 0x90))}
		if p[0]&0x30 == 0 {
			for len(p) < n {
				k := r.Pick(100, 127, 128, 16383, 16384, 40000)
				p = append(p, obuLeb(k)...)
				e := r.Bytes(k)
				e[0] = 6 << 3
				p = append(p, e...)
			}
			return p
		}
		e := r.Bytes(n)
		e[0] = 6 << 3
		return append(p, e...)
	}
	p := r.Bytes(n)
	p[0] = byte(r.Pick(0x10, 0x90, 0x8A, 0xFF, int(p[0])))
	return p
}

func obuLeb(v int) []byte {
	var out []byte
	for {
		b := byte(v & 0x7F)
		v >>= 7
		if v != 0 {
			out = append(out, b|0x80)
		} else {
			return append(out, b)
		}
	}
}
