package props

import (
	"bytes"
	"encoding/binary"
	"fmt"
	"time"

	"github.com/pion/rtp"

	"verifharness/fw"
)

// c17Fresh checks that Marshal hands out a buffer of its own: overwriting a returned buffer must not change what a
// later Marshal of the same value returns (and the two results must not share storage).
func c17Fresh(c *fw.Ctx, name string, marshal func() ([]byte, error)) bool {
	a, err := marshal()
	if err != nil || len(a) == 0 {
		return true
	}
	want := append([]byte(nil), a...)
	for i := range a {
		a[i] ^= 0xFF
	}
	b, err := marshal()
	c.Evals(1)
	if err != nil || !bytes.Equal(b, want) {
		c.Fail("C17/"+name+"/marshal-result-changes-after-caller-overwrote-an-earlier-result", fmt.Sprintf("Marshal returned %s, then (after the caller overwrote that buffer) %s for the same value", fw.Hex(want), fw.Hex(b)), fw.W("first", fw.Hex(want), "second", fw.Hex(b)))
		return false
	}
	if _, shared := within(b, a); shared {
		c.Fail("C17/"+name+"/marshal-results-share-storage", "two Marshal results share storage", fw.W("value", fw.Hex(want)))
		return false
	}
	return true
}

func init() {
	fw.Register(&fw.Prop{
		ID:    "C17",
		Level: "exploration",
		Rule: "cases = the complete value domains executed on the real code: AudioLevel 2x256 values and all 256 bytes; TransportCC 2^16; PlayoutDelay all 2^24 " +
			"in-range pairs + out-of-range boundary pairs; AbsSendTime all 2^24 values (+ 64-bit timestamps); AbsCaptureTime seeded 64-bit timestamps x " +
			"{no offset, boundary and random offsets}; every input length 0..size+2; every decode also into a receiver pre-loaded with other values; " +
			"non-trivial = every case (each value is a distinct point of the domain); distinct = (codec, value block, outcome class)",
		Floor:       500,
		Technique:   "runtime monitor: exhaustive execution of the value domains against bit layouts written from the specifications; pre-loaded-receiver twin",
		Assumptions: []string{"bit layouts per RFC 6464 (audio level), transport-wide-cc-01, playout-delay, abs-send-time and abs-capture-time specifications as restated in ref comments"},
		Strata: []fw.Stratum{
			{Name: "audiolevel", N: fw.Const(1, 1), Run: c17Audio, Exhaustive: true},
			{Name: "transportcc-2^16", N: fw.Const(16, 16), Run: c17TCC, Exhaustive: true},
			{Name: "playoutdelay-2^24", N: fw.Const(256, 256), Run: c17Playout, Exhaustive: true},
			{Name: "playoutdelay-out-of-range", N: fw.Const(1, 1), Run: c17PlayoutOOR, Exhaustive: true},
			{Name: "abssendtime-2^24", N: fw.Const(256, 256), Run: c17AST, Exhaustive: true},
			{Name: "abscapturetime", N: fw.Const(1<<11, 1<<14), Run: c17ACT},
		},
	})
}

func c17ShortInputs(c *fw.Ctx, name string, size int, good []byte, dec func(b []byte) error) bool {
	// every length 0..size+2 and some much longer inputs: shorter => error, >= size => accepted (trailing bytes ignored)
	lens := []int{}
	for l := 0; l <= size+2; l++ {
		lens = append(lens, l)
	}
	lens = append(lens, 2*size, 2*size+1, 3*size, 4*size+3, 255, 1000)
	for _, l := range lens {
		in := make([]byte, l)
		copy(in, good)
		var err error
		if pv, st := fw.Guard(func() { err = dec(in) }); pv != nil {
			c.Fail("C17/"+name+"/unmarshal-panics/"+fw.PanicFunc(st), fmt.Sprintf("Unmarshal panicked on %d bytes: %v", l, pv), fw.W("input", fw.Hex(in), "stack", st))
			return false
		}
		c.Evals(1)
		if l < size && err == nil {
			c.Fail("C17/"+name+"/accepts-short-input", fmt.Sprintf("Unmarshal accepted %d bytes, the fixed size is %d", l, size), fw.W("input", fw.Hex(in)))
			return false
		}
		if l >= size && err != nil {
			c.Fail("C17/"+name+"/rejects-sufficient-input", fmt.Sprintf("Unmarshal rejected %d bytes, the fixed size is %d: %v", l, size, err), fw.W("input", fw.Hex(in)))
			return false
		}
	}
	if pv, st := fw.Guard(func() { _ = dec(nil) }); pv != nil {
		c.Fail("C17/"+name+"/unmarshal-panics/"+fw.PanicFunc(st), fmt.Sprintf("Unmarshal panicked on nil: %v", pv), fw.W("stack", st))
		return false
	}
	return true
}

func c17Audio(c *fw.Ctx, _ int) {
	for lvl := 0; lvl < 256; lvl++ {
		for v := 0; v < 2; v++ {
			e := rtp.AudioLevelExtension{Level: uint8(lvl), Voice: v == 1}
			var b []byte
			var err error
			if pv, st := fw.Guard(func() { b, err = e.Marshal() }); pv != nil {
				c.Fail("C17/audiolevel/marshal-panics/"+fw.PanicFunc(st), fmt.Sprintf("Marshal panicked: %v", pv), fw.W("level", lvl, "voice", v, "stack", st))
				return
			}
			c.Evals(1)
			w := fw.W("level", lvl, "voice", v == 1, "encoded", fw.Hex(b))
			if lvl > 127 {
				if err == nil {
					c.Fail("C17/audiolevel/out-of-range-accepted", "Marshal accepted a level above 127", w)
					return
				}
				c.Shapef("audiolevel|oor|%d", lvl>>4)
				continue
			}
			want := []byte{uint8(v<<7) | uint8(lvl)}
			if !c17Fresh(c, "audiolevel", e.Marshal) {
				return
			}
			if err != nil || !bytes.Equal(b, want) {
				c.Fail("C17/audiolevel/marshal-layout", fmt.Sprintf("Marshal = %s (err %v), RFC 6464 layout is %s", fw.Hex(b), err, fw.Hex(want)), w)
				return
			}
			c.Shapef("audiolevel|ok|%d|%d", lvl>>3, v)
		}
	}
	for b := 0; b < 256; b++ {
		for _, pre := range []rtp.AudioLevelExtension{{}, {Level: 127, Voice: true}, {Level: 5}} {
			for extra := 0; extra <= 2; extra++ {
				in := append([]byte{byte(b)}, make([]byte, extra)...)
				for k := 1; k < len(in); k++ {
					in[k] = 0xFF
				}
				e := pre
				var err error
				if pv, st := fw.Guard(func() { err = e.Unmarshal(in) }); pv != nil {
					c.Fail("C17/audiolevel/unmarshal-panics/"+fw.PanicFunc(st), fmt.Sprintf("Unmarshal panicked: %v", pv), fw.W("input", fw.Hex(in), "stack", st))
					return
				}
				c.Evals(1)
				if err != nil || e.Level != uint8(b&0x7F) || e.Voice != (b&0x80 != 0) {
					c.Fail("C17/audiolevel/unmarshal-layout", fmt.Sprintf("byte %#02x decoded to level %d voice %v (err %v)", b, e.Level, e.Voice, err), fw.W("input", fw.Hex(in), "receiver_before", fmt.Sprint(pre)))
					return
				}
				// round trip
				if out, err := e.Marshal(); err != nil || len(out) != 1 || out[0] != byte(b) {
					c.Fail("C17/audiolevel/roundtrip", "Marshal(Unmarshal(b)) != b", fw.W("input", fw.Hex(in)))
					return
				}
			}
		}
		c.Shapef("audiolevel|dec|%d", b>>3)
	}
	e := rtp.AudioLevelExtension{}
	c17ShortInputs(c, "audiolevel", 1, []byte{0x85, 1, 2}, func(b []byte) error { return e.Unmarshal(b) })
	c.Sample(map[string]any{"codec": "audiolevel", "domain": "level 0..255 x voice, all 256 bytes x 3 receivers x 0..2 trailing bytes"})
}

func c17TCC(c *fw.Ctx, i int) {
	for v := i << 12; v < (i+1)<<12; v++ {
		e := rtp.TransportCCExtension{TransportSequence: uint16(v)}
		b, err := e.Marshal()
		c.Evals(2)
		want := []byte{byte(v >> 8), byte(v)}
		if err != nil || !bytes.Equal(b, want) {
			c.Fail("C17/transportcc/marshal-layout", fmt.Sprintf("Marshal(%d) = %s (err %v), want %s", v, fw.Hex(b), err, fw.Hex(want)), fw.W("value", v))
			return
		}
		if v%251 == 0 && !c17Fresh(c, "transportcc", e.Marshal) {
			return
		}
		d := rtp.TransportCCExtension{TransportSequence: uint16(^v)}
		in := append(append([]byte{}, want...), byte(v>>3))
		if v&1 == 0 {
			in = in[:2]
		}
		if err := d.Unmarshal(in); err != nil || d.TransportSequence != uint16(v) {
			c.Fail("C17/transportcc/unmarshal-layout", fmt.Sprintf("Unmarshal(%s) = %d (err %v), want %d", fw.Hex(in), d.TransportSequence, err, v), fw.W("value", v))
			return
		}
	}
	c.Shapef("transportcc|block%d", i)
	if i == 0 {
		e := rtp.TransportCCExtension{}
		c17ShortInputs(c, "transportcc", 2, []byte{0x12, 0x34, 5, 6}, func(b []byte) error { return e.Unmarshal(b) })
		c.Sample(map[string]any{"codec": "transportcc", "domain": "all 65536 sequence numbers, marshal + unmarshal into a pre-loaded receiver"})
	}
}

func c17Playout(c *fw.Ctx, i int) {
	// i = high 8 bits of the 24-bit (min<<12 | max) pair index
	var wire [5]byte
	for lo := 0; lo < 1<<16; lo++ {
		v := i<<16 | lo
		mn, mx := uint16(v>>12), uint16(v&0xFFF)
		e := rtp.PlayoutDelayExtension{MinDelay: mn, MaxDelay: mx}
		b, err := e.Marshal()
		wire[0], wire[1], wire[2] = byte(v>>16), byte(v>>8), byte(v)
		if err != nil || len(b) != 3 || b[0] != wire[0] || b[1] != wire[1] || b[2] != wire[2] {
			c.Fail("C17/playoutdelay/marshal-layout", fmt.Sprintf("Marshal(min %d, max %d) = %s (err %v), want %s", mn, mx, fw.Hex(b), err, fw.Hex(wire[:3])), fw.W("min", mn, "max", mx))
			return
		}
		if lo%4099 == 0 && !c17Fresh(c, "playoutdelay", e.Marshal) {
			return
		}
		d := rtp.PlayoutDelayExtension{MinDelay: ^mn, MaxDelay: ^mx}
		wire[3], wire[4] = byte(lo), 0xFF
		if err := d.Unmarshal(wire[:3+(lo&1)*2]); err != nil || d.MinDelay != mn || d.MaxDelay != mx {
			c.Fail("C17/playoutdelay/unmarshal-layout", fmt.Sprintf("Unmarshal(%s) = (%d, %d) err %v, want (%d, %d)", fw.Hex(wire[:3]), d.MinDelay, d.MaxDelay, err, mn, mx), fw.W("min", mn, "max", mx))
			return
		}
	}
	c.Evals(2 << 16)
	c.Shapef("playoutdelay|block%d", i)
	if i == 0 {
		e := rtp.PlayoutDelayExtension{}
		c17ShortInputs(c, "playoutdelay", 3, []byte{0x12, 0x34, 0x56, 7, 8}, func(b []byte) error { return e.Unmarshal(b) })
		c.Sample(map[string]any{"codec": "playoutdelay", "domain": "all 2^24 (min,max) pairs of 12 bits each; case = 65536 consecutive pairs"})
	}
}

func c17PlayoutOOR(c *fw.Ctx, _ int) {
	vals := []uint16{0, 1, 4095, 4096, 4097, 8191, 8192, 32768, 65535}
	n := 0
	for _, mn := range vals {
		for _, mx := range vals {
			if mn <= 4095 && mx <= 4095 {
				continue
			}
			e := rtp.PlayoutDelayExtension{MinDelay: mn, MaxDelay: mx}
			var b []byte
			var err error
			if pv, st := fw.Guard(func() { b, err = e.Marshal() }); pv != nil {
				c.Fail("C17/playoutdelay/marshal-panics/"+fw.PanicFunc(st), fmt.Sprintf("Marshal panicked: %v", pv), fw.W("min", mn, "max", mx, "stack", st))
				return
			}
			c.Evals(1)
			n++
			if err == nil {
				c.Fail("C17/playoutdelay/out-of-range-accepted", fmt.Sprintf("Marshal(min %d, max %d) returned %s instead of an error", mn, mx, fw.Hex(b)), fw.W("min", mn, "max", mx))
				return
			}
			c.Shapef("playout-oor|%d|%d", mn, mx)
		}
	}
	c.Sample(map[string]any{"codec": "playoutdelay", "out_of_range_pairs": n})
}

func c17AST(c *fw.Ctx, i int) {
	var wire [5]byte
	for lo := 0; lo < 1<<16; lo++ {
		v := uint64(i<<16 | lo)
		ts := v
		if lo&3 == 3 {
			ts |= uint64(lo) << 40 // 64-bit timestamps: only the low 24 bits are encoded
		}
		e := rtp.AbsSendTimeExtension{Timestamp: ts}
		b, err := e.Marshal()
		wire[0], wire[1], wire[2] = byte(v>>16), byte(v>>8), byte(v)
		if err != nil || len(b) != 3 || b[0] != wire[0] || b[1] != wire[1] || b[2] != wire[2] {
			c.Fail("C17/abssendtime/marshal-layout", fmt.Sprintf("Marshal(%#x) = %s (err %v), want %s", ts, fw.Hex(b), err, fw.Hex(wire[:3])), fw.W("timestamp", ts))
			return
		}
		if lo%4099 == 0 && !c17Fresh(c, "abssendtime", e.Marshal) {
			return
		}
		d := rtp.AbsSendTimeExtension{Timestamp: ^v}
		if lo&7 == 5 {
			// a receiver that holds what a sender's constructor put there: the NTP time of a plausible instant, 50 bits wide
			d = *rtp.NewAbsSendTimeExtension(time.Unix(int64(1_000_000_000+(lo*977+i*31)%1_000_000_000), int64(lo)*15259))
		}
		wire[3], wire[4] = byte(lo), 0xEE
		if err := d.Unmarshal(wire[:3+(lo&1)*2]); err != nil || d.Timestamp != v {
			c.Fail("C17/abssendtime/unmarshal-layout", fmt.Sprintf("Unmarshal(%s) = %#x err %v, want %#x", fw.Hex(wire[:3]), d.Timestamp, err, v), fw.W("timestamp", v))
			return
		}
	}
	c.Evals(2 << 16)
	c.Shapef("abssendtime|block%d", i)
	if i == 0 {
		e := rtp.AbsSendTimeExtension{}
		c17ShortInputs(c, "abssendtime", 3, []byte{0x12, 0x34, 0x56, 7, 8}, func(b []byte) error { return e.Unmarshal(b) })
		c.Sample(map[string]any{"codec": "abssendtime", "domain": "all 2^24 field values (every 4th carried in a 64-bit timestamp with high bits set); case = 65536 values"})
	}
}

func c17ACT(c *fw.Ctx, i int) {
	r := c.R
	// one receiver decoding the whole stream, as an application does per packet; values it decoded earlier were copied out by assignment
	stream := &rtp.AbsCaptureTimeExtension{}
	type decoded struct {
		v    rtp.AbsCaptureTimeExtension
		wire []byte
	}
	var earlier []decoded // the last few values copied out of the stream receiver
	for k := 0; k < 1024; k++ {
		ts := r.PickU64(0, 1, 1<<63, ^uint64(0), 0x83AA7E8000000000, r.U64(), r.U64(), r.U64(),
			r.U64()|0xFFFFFFFF, r.U64()<<32, r.U64()&^0xFFFFFFFF|0xFFFFFFFE, r.U64()|0xFFFFFFFF00000000, r.U64()>>32) // one 32-bit word all ones / all zeros
		if r.Chance(1, 16) {
			// the timestamps the library's own constructor produces for sentinel instants (the zero time.Time, the Unix epoch, the era end ...)
			sentinels := []time.Time{{}, time.Unix(0, 0), time.Unix(0, 1), time.Unix(2085978495, 999999999), time.Unix(2085978496, 0), time.Unix(-2208988800, 0), time.Unix(1<<31-1, 0)}
			ts = rtp.NewAbsCaptureTimeExtension(sentinels[r.Intn(len(sentinels))]).Timestamp
		}
		hasOff := r.Bool()
		off := int64(r.PickU64(0, 1, ^uint64(0), 1<<63, 1<<63-1, 1<<32, r.U64(), r.U64(), r.U64()|0xFFFFFFFF, r.U64()<<32, r.U64()|0xFFFFFFFF00000000))
		e := rtp.AbsCaptureTimeExtension{Timestamp: ts}
		want := binary.BigEndian.AppendUint64(nil, ts)
		if hasOff {
			o := off
			e.EstimatedCaptureClockOffset = &o
			want = binary.BigEndian.AppendUint64(want, uint64(off))
		}
		var b []byte
		var err error
		if pv, st := fw.Guard(func() { b, err = e.Marshal() }); pv != nil {
			c.Fail("C17/abscapturetime/marshal-panics/"+fw.PanicFunc(st), fmt.Sprintf("Marshal panicked: %v", pv), fw.W("timestamp", ts, "stack", st))
			return
		}
		c.Evals(1)
		w := fw.W("timestamp", fmt.Sprintf("%#x", ts), "has_offset", hasOff, "offset", off, "encoded", fw.Hex(b))
		if err != nil || !bytes.Equal(b, want) {
			c.Fail("C17/abscapturetime/marshal-layout", fmt.Sprintf("Marshal = %s (err %v), want %s", fw.Hex(b), err, fw.Hex(want)), w)
			return
		}
		if k%16 == 0 && !c17Fresh(c, "abscapturetime", e.Marshal) {
			return
		}
		// decode into receivers with different histories; lengths size..size+2
		pre := []func() *rtp.AbsCaptureTimeExtension{
			func() *rtp.AbsCaptureTimeExtension { return &rtp.AbsCaptureTimeExtension{} },
			func() *rtp.AbsCaptureTimeExtension {
				o := int64(-77)
				return &rtp.AbsCaptureTimeExtension{Timestamp: ^ts, EstimatedCaptureClockOffset: &o}
			},
			func() *rtp.AbsCaptureTimeExtension {
				d := &rtp.AbsCaptureTimeExtension{}
				_ = d.Unmarshal([]byte{1, 2, 3, 4, 5, 6, 7, 8, 9, 10, 11, 12, 13, 14, 15, 16}) // previously decoded a 16-byte form
				return d
			},
		}
		for pi, mk := range pre {
			extras := []int{0, 1, 2, 7} // 8..15 bytes: the short form
			if hasOff {
				extras = []int{0, 1, 2, 7, 8, 9, 16, 100} // 16 bytes and anything longer: the extended form, trailing bytes ignored
			}
			for _, extra := range extras {
				in := append(append([]byte{}, want...), make([]byte, extra)...)
				for q := len(want); q < len(in); q++ {
					in[q] = 0xEE
				}
				d := mk()
				var err error
				if pv, st := fw.Guard(func() { err = d.Unmarshal(in) }); pv != nil {
					c.Fail("C17/abscapturetime/unmarshal-panics/"+fw.PanicFunc(st), fmt.Sprintf("Unmarshal panicked: %v", pv), fw.W("input", fw.Hex(in), "stack", st))
					return
				}
				c.Evals(1)
				w2 := fw.W("input", fw.Hex(in), "receiver_history", []string{"fresh", "pre-loaded with timestamp and offset", "previously decoded a 16-byte encoding"}[pi])
				if err != nil || d.Timestamp != ts {
					c.Fail("C17/abscapturetime/unmarshal-timestamp", fmt.Sprintf("decoded timestamp %#x (err %v), want %#x", d.Timestamp, err, ts), w2)
					return
				}
				if hasOff {
					if d.EstimatedCaptureClockOffset == nil || *d.EstimatedCaptureClockOffset != off {
						c.Fail("C17/abscapturetime/unmarshal-offset", "16-byte form: decoded offset differs from the encoded one", w2)
						return
					}
				} else if d.EstimatedCaptureClockOffset != nil {
					sig := "C17/abscapturetime/short-form-reports-an-offset"
					if pi != 0 {
						sig += "/stale-from-receiver-history"
					}
					c.Fail(sig, fmt.Sprintf("the 8-byte form carries no offset but the receiver reports %d", *d.EstimatedCaptureClockOffset), w2)
					return
				}
			}
		}
		// a value decoded earlier (copied out of the reused receiver) and the value a receiver was initialised from still are what they were decoded as
		if err := stream.Unmarshal(want); err != nil {
			c.Fail("C17/abscapturetime/unmarshal-timestamp", "stream receiver refused a valid encoding: "+err.Error(), w)
			return
		}
		for _, e := range earlier {
			if now, err := e.v.Marshal(); err != nil || !bytes.Equal(now, e.wire) {
				c.Fail("C17/abscapturetime/earlier-decoded-value-changed-by-a-later-Unmarshal", fmt.Sprintf("a value decoded from %s and copied out of the receiver encodes as %s after the receiver decoded %s",
					fw.Hex(e.wire), fw.Hex(now), fw.Hex(want)), w)
				return
			}
			c.Count("earlier_decoded_values_rechecked", 1)
		}
		earlier = append(earlier, decoded{*stream, want})
		if len(earlier) > 4 {
			earlier = earlier[1:]
		}
		{
			init := e // receiver initialised by assignment from a live value
			other := binary.BigEndian.AppendUint64(binary.BigEndian.AppendUint64(nil, ^ts), uint64(off)^0x5555)
			if err := init.Unmarshal(other); err != nil {
				c.Fail("C17/abscapturetime/unmarshal-timestamp", "receiver refused a valid 16-byte encoding: "+err.Error(), w)
				return
			}
			if now, err := e.Marshal(); err != nil || !bytes.Equal(now, want) {
				c.Fail("C17/abscapturetime/earlier-decoded-value-changed-by-a-later-Unmarshal", fmt.Sprintf("the value a receiver was initialised from by assignment encodes as %s after that receiver decoded %s (it encoded as %s before)",
					fw.Hex(now), fw.Hex(other), fw.Hex(want)), w)
				return
			}
		}
		// round trip
		var back rtp.AbsCaptureTimeExtension
		if err := back.Unmarshal(b); err != nil || back.Timestamp != ts || (back.EstimatedCaptureClockOffset != nil) != hasOff {
			c.Fail("C17/abscapturetime/roundtrip", "Unmarshal(Marshal(v)) != v", w)
			return
		}
		c.Shapef("act|off%v|ts%d|o%d", hasOff, ts>>60, uint64(off)>>61)
	}
	if i == 0 {
		e := rtp.AbsCaptureTimeExtension{}
		c17ShortInputs(c, "abscapturetime", 8, []byte{1, 2, 3, 4, 5, 6, 7, 8, 9, 10}, func(b []byte) error { return e.Unmarshal(b) })
		c.Sample(map[string]any{"codec": "abscapturetime", "case": "1024 seeded (timestamp, offset?) values x 3 receiver histories x 0..2 trailing bytes"})
	}
}
