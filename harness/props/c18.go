package props

import (
	"fmt"
	"sync"
	"time"
	_ "time/tzdata" // real time zones also where the system has no zoneinfo

	"github.com/pion/rtp"

	"verifharness/fw"
)

func init() {
	fw.Register(&fw.Prop{
		ID:    "C18",
		Level: "exploration",
		Rule: "cases = (instant, offset, delay) triples: instants uniform over 1970..2036-02-07, within 2 us of every kind of 64 s boundary of the 24-bit field, " +
			"within 2 ns of whole seconds, in the last 70 s of the NTP era (with receive instants that cross the era end); offsets uniform in (-2^31 s, 2^31 s), near whole seconds, 0 and the extremes; " +
			"delays 0, < 10 us, within 10 us below 64 s - 2^-18 s, uniform; judged with integer nanosecond arithmetic (no float, no wall clock); " +
			"non-trivial = every triple; distinct = (instant class, offset class, delay class, fraction-carry class)",
		Floor:     100,
		Technique: "runtime monitor: integer-arithmetic reference bounds on CaptureTime, EstimatedCaptureClockOffsetDuration and Estimate over boundary-concentrated instants",
		Assumptions: []string{
			"the send instant lies before the NTP era end; the receive instant (send + delay) may lie up to 64 s after it (a third of the cases use the last instants of the era freely)",
			"1 ns of conversion slack is allowed on top of the 2^-18 s field resolution",
		},
		Strata: []fw.Stratum{
			{Name: "capture-time-and-offset", N: fw.Const(60000, 900000), Run: c18Capture},
			{Name: "send-time-estimate", N: fw.Const(60000, 900000), Run: c18Estimate},
		},
	})
}

const eraEndUnix = int64(2085978496) // 2^32 s after 1900-01-01: 2036-02-07T06:28:16Z

// c18Instant returns ns since 1970 and a class label.
func c18Instant(r *fw.Rand, margin int64) (int64, string) {
	maxNs := eraEndUnix*1e9 - margin - 1
	var ns int64
	var cl string
	switch r.Intn(10) {
	case 0, 1:
		ns, cl = int64(r.U64()%uint64(maxNs)), "uniform"
	case 2, 3: // around a 64 s boundary of the NTP second counter (NTP seconds = unix + 2208988800, which is a multiple of 64)
		k := int64(r.U64() % uint64(maxNs/64e9))
		ns, cl = k*64e9+int64(r.Range(-2000, 2000)), "64s-boundary"
	case 4: // around a whole second
		k := int64(r.U64() % uint64(maxNs/1e9))
		ns, cl = k*1e9+int64(r.Range(-2, 2)), "whole-second"
	case 5: // last 70 s of the era
		ns, cl = maxNs-int64(r.U64()%uint64(70e9)), "era-end"
	case 6: // first seconds of 1970
		ns, cl = int64(r.U64()%uint64(130e9)), "epoch-start"
	case 7: // within a nanosecond of a boundary of the 2^-18 s field unit (where the 24-bit field changes)
		k := int64(r.U64() % uint64(maxNs>>12))
		ns, cl = int64((uint64(k)*1000000000)>>18)+int64(r.Pick(-1, 0, 0, 1)), "field-unit-boundary"
	default: // exactly representable fractions
		k := int64(r.U64() % uint64(maxNs/1e9))
		ns, cl = k*1e9+int64(r.Pick(0, 500000000, 250000000, 999999999, 1, 3814, 3815, 3816)), "fraction"
	}
	if ns < 0 {
		ns = 0
	}
	if ns > maxNs {
		ns = maxNs
	}
	return ns, cl
}

// c18Time builds the time.Time for an instant in one of the shapes callers really pass: plain, UTC, a fixed zone,
// or derived from time.Now() (carrying a monotonic clock reading). The oracle always uses the value's own UnixNano().
func c18Time(r *fw.Rand, ns int64) time.Time {
	switch r.Intn(6) {
	case 0:
		return time.Unix(0, ns).UTC()
	case 1:
		return time.Unix(0, ns).In(time.FixedZone("x", r.Pick(-12, -5, 0, 1, 14)*3600+r.Pick(0, 1800)))
	case 2:
		now := time.Now()
		return now.Add(time.Duration(ns - now.UnixNano())) // monotonic reading present
	case 3:
		return time.Unix(ns/1e9, ns%1e9)
	}
	return time.Unix(0, ns)
}

// c18Zone: a real time zone with its offset changes (DST switches, political changes) between 1970 and the era end.
type c18Zone struct {
	loc         *time.Location
	transitions []int64 // unix seconds: the first second with the new offset
}

var c18Zones = sync.OnceValue(func() []c18Zone {
	var out []c18Zone
	for _, name := range []string{"America/New_York", "Europe/Berlin", "Australia/Lord_Howe", "America/St_Johns", "Pacific/Apia", "Asia/Kathmandu", "Africa/Casablanca"} {
		loc, err := time.LoadLocation(name)
		if err != nil {
			continue
		}
		z := c18Zone{loc: loc}
		off := func(s int64) int { _, o := time.Unix(s, 0).In(loc).Zone(); return o }
		const day = 86400
		prev := off(0)
		for s := int64(day); s < eraEndUnix; s += day {
			if o := off(s); o != prev {
				lo, hi := s-day, s // offset changes somewhere in (lo, hi]
				for hi-lo > 1 {
					mid := (lo + hi) / 2
					if off(mid) == prev {
						lo = mid
					} else {
						hi = mid
					}
				}
				z.transitions = append(z.transitions, hi)
				prev = o
			}
		}
		out = append(out, z)
	}
	return out
})

// c18Zoned returns an instant within two hours of an offset change of a real zone (the repeated or skipped local hour), carried in that zone.
func c18Zoned(r *fw.Rand, margin int64) (time.Time, bool) {
	zs := c18Zones()
	if len(zs) == 0 {
		return time.Time{}, false
	}
	z := zs[r.Intn(len(zs))]
	if len(z.transitions) == 0 {
		return time.Time{}, false
	}
	ns := z.transitions[r.Intn(len(z.transitions))]*1e9 + int64(r.Range(-7200, 7200))*1e9 + int64(r.Pick(0, 1, 999999999, r.Intn(1000000000)))
	if ns < 0 || ns > eraEndUnix*1e9-margin-1 {
		return time.Time{}, false
	}
	return time.Unix(0, ns).In(z.loc), true
}

func abs64(x int64) int64 {
	if x < 0 {
		return -x
	}
	return x
}

func c18Capture(c *fw.Ctx, _ int) {
	r := c.R
	for k := 0; k < 256; k++ {
		ns, icl := c18Instant(r, 0)
		t := c18Time(r, ns)
		if r.Chance(1, 8) {
			if zt, ok := c18Zoned(r, 0); ok {
				t, ns, icl = zt, zt.UnixNano(), "zone-offset-change"
				c.Count("instants_in_real_zones_near_an_offset_change", 1)
			}
		}
		if t.UnixNano() != ns {
			ns = t.UnixNano() // (a value derived from time.Now() may differ by the clock's granularity)
		}
		var got time.Time
		if pv, st := fw.Guard(func() { got = rtp.NewAbsCaptureTimeExtension(t).CaptureTime() }); pv != nil {
			c.Fail("C18/capturetime/panic/"+fw.PanicFunc(st), fmt.Sprintf("panicked: %v", pv), fw.W("instant_ns", ns, "stack", st))
			return
		}
		c.Evals(1)
		if d := got.UnixNano() - ns; abs64(d) > 1 {
			c.Fail("C18/capturetime/off-by-more-than-1ns/"+icl, fmt.Sprintf("CaptureTime differs from the instant by %d ns", d), fw.W("instant_ns", ns, "got_ns", got.UnixNano()))
			return
		}
		// offsets
		const lim = int64(1) << 31 // seconds
		var off int64
		var ocl string
		switch r.Intn(8) {
		case 0:
			off, ocl = 0, "zero"
		case 1:
			off, ocl = int64(r.Pick(1, -1, 2, -2, 999999999, -999999999, 1000000000, -1000000000, 1000000001, -1000000001)), "tiny"
		case 2:
			// the last two seconds below 2^31 s with every kind of sub-second part (and the very last nanosecond)
			off, ocl = (lim*1e9-1-int64(r.Pick(0, 0, 1, 250000000, 500000000, 999999999, 1000000000, r.Intn(2000000000), r.Intn(2000000000))))*int64(r.Pick(1, -1)), "extreme"
		case 3:
			off, ocl = (int64(r.U64()%uint64(lim)))*1e9*int64(r.Pick(1, -1))+int64(r.Range(-2, 2)), "whole-second"
		case 4:
			// large magnitude with a non-trivial sub-second part
			off, ocl = (int64(1)<<uint(r.Range(20, 30))*1e9+int64(r.U64()%1e9))*int64(r.Pick(1, -1)), "large-with-fraction"
		default:
			off, ocl = int64(r.U64()%uint64(lim*1e9))*int64(r.Pick(1, -1)), "uniform"
		}
		if abs64(off) >= lim*1e9 {
			off = (lim*1e9 - 1) * int64(r.Pick(1, -1))
		}
		var dur *time.Duration
		var ct time.Time
		if pv, st := fw.Guard(func() {
			e := rtp.NewAbsCaptureTimeExtensionWithCaptureClockOffset(t, time.Duration(off))
			dur = e.EstimatedCaptureClockOffsetDuration()
			ct = e.CaptureTime()
		}); pv != nil {
			c.Fail("C18/offset/panic/"+fw.PanicFunc(st), fmt.Sprintf("panicked: %v", pv), fw.W("instant_ns", ns, "offset_ns", off, "stack", st))
			return
		}
		c.Evals(2)
		w := fw.W("instant_ns", ns, "offset_ns", off)
		if dur == nil {
			c.Fail("C18/offset/nil-duration", "an extension built with an offset reports no offset", w)
			return
		}
		if d := int64(*dur) - off; abs64(d) > 1 {
			mag := "below-2^23s"
			if abs64(off) >= (1<<23)*1e9 {
				mag = "at-or-above-2^23s"
			}
			sign := "same-sign"
			if (int64(*dur) < 0) != (off < 0) && off != 0 {
				sign = "sign-flipped"
			}
			c.Fail("C18/offset/off-by-more-than-1ns/"+mag+"/"+sign, fmt.Sprintf("recovered offset differs by %d ns", d), fw.W("instant_ns", ns, "offset_ns", off, "got_ns", int64(*dur)))
			return
		}
		if d := ct.UnixNano() - ns; abs64(d) > 1 {
			c.Fail("C18/capturetime/off-by-more-than-1ns/with-offset", fmt.Sprintf("CaptureTime differs from the instant by %d ns", d), w)
			return
		}
		// an extension without offset reports none
		if rtp.NewAbsCaptureTimeExtension(t).EstimatedCaptureClockOffsetDuration() != nil {
			c.Fail("C18/offset/unexpected-duration", "an extension built without an offset reports one", w)
			return
		}
		c.Shapef("%s|%s|sign%v|frac%d", icl, ocl, off < 0, (ns%1e9)*4/1e9)
		if k == 0 && c.WantSample() {
			c.Sample(map[string]any{"instant_ns": ns, "offset_ns": off, "capture_time_ns": ct.UnixNano(), "recovered_offset_ns": int64(*dur)})
		}
	}
}

func c18Estimate(c *fw.Ctx, _ int) {
	r := c.R
	const res = int64(3815) // ceil(2^-18 s in ns) = 3814.697...
	const maxDelay = int64(64e9) - 3815
	for k := 0; k < 256; k++ {
		var delay int64
		var dcl string
		switch r.Intn(8) {
		case 0:
			delay, dcl = 0, "zero"
		case 1:
			delay, dcl = int64(r.Intn(10000)), "<10us"
		case 2:
			delay, dcl = maxDelay-int64(r.Pick(0, 0, 1, 2, 3)), "largest-allowed" // 64 s - 3815 ns is the largest whole-ns delay below 64 s - 2^-18 s
		case 3:
			delay, dcl = maxDelay-1-int64(r.Intn(10000)), "just-below-64s"
		case 4:
			delay, dcl = int64(63e9)+int64(r.U64()%uint64(maxDelay-63e9)), "63-64s"
		default:
			delay, dcl = int64(r.U64()%uint64(maxDelay)), "uniform"
		}
		// the send instant lies before the era end; the receive instant (send + delay) may lie up to 64 s after it
		margin := delay
		if r.Chance(1, 3) {
			margin = 0
		}
		ns, icl := c18Instant(r, margin)
		send := c18Time(r, ns)
		if r.Chance(1, 8) {
			if zt, ok := c18Zoned(r, margin); ok {
				send, icl = zt, "zone-offset-change"
				c.Count("instants_in_real_zones_near_an_offset_change", 1)
			}
		}
		ns = send.UnixNano()
		recv := c18Time(r, ns+delay)
		if icl == "zone-offset-change" && r.Bool() {
			recv = time.Unix(0, ns+delay).In(send.Location())
		}
		if recv.UnixNano() != ns+delay {
			recv = time.Unix(0, ns+delay)
		}
		var est time.Time
		var ts uint64
		if pv, st := fw.Guard(func() {
			e := rtp.NewAbsSendTimeExtension(send)
			ts = e.Timestamp
			if k%3 == 0 {
				// the sender's own object, as NewAbsSendTimeExtension built it (it may hold more than the 24 bits that travel)
				est = e.Estimate(recv)
				return
			}
			// through the wire: only 24 bits travel
			b, _ := e.Marshal()
			var d rtp.AbsSendTimeExtension
			_ = d.Unmarshal(b)
			est = d.Estimate(recv)
		}); pv != nil {
			c.Fail("C18/estimate/panic/"+fw.PanicFunc(st), fmt.Sprintf("panicked: %v", pv), fw.W("send_ns", ns, "delay_ns", delay, "stack", st))
			return
		}
		c.Evals(1)
		diff := ns - est.UnixNano() // must be in [0, 2^-18 s) up to 1 ns of conversion slack
		if diff < -1 || diff > res+1 {
			carry := "no-fraction-carry"
			if ns%1e9+delay%1e9 >= 1e9 {
				carry = "fraction-carry"
			}
			wraps := "off-by-other"
			switch {
			case abs64(diff+64e9) < 2*res:
				wraps = "64s-too-late"
			case abs64(diff-64e9) < 2*res:
				wraps = "64s-too-early"
			}
			c.Fail("C18/estimate/"+wraps+"/"+dcl+"/"+carry, fmt.Sprintf("Estimate is %d ns before the send instant (allowed 0..%d)", diff, res),
				fw.W("send_ns", ns, "delay_ns", delay, "estimate_ns", est.UnixNano(), "abs_send_time_field", ts&0xFFFFFF))
			return
		}
		crossed := (ns/64e9 != (ns+delay)/64e9)
		if crossed {
			c.Count("estimates_across_a_64s_wrap", 1)
		}
		if ns+delay >= eraEndUnix*1e9 {
			c.Count("estimates_with_receive_instant_after_the_era_end", 1)
			icl += "|recv-after-era-end"
		}
		c.Shapef("%s|%s|crossed%v|carry%v", icl, dcl, crossed, ns%1e9+delay%1e9 >= 1e9)
		if k == 0 && c.WantSample() {
			c.Sample(map[string]any{"send_ns": ns, "delay_ns": delay, "estimate_ns": est.UnixNano(), "field": ts & 0xFFFFFF})
		}
	}
}
