package props

import (
	"bytes"
	"fmt"

	"github.com/pion/rtp/codecs"

	"verifharness/fw"
	"verifharness/gen"
	"verifharness/ref"
)

func init() {
	fw.Register(&fw.Prop{
		ID:    "C14",
		Level: "exploration",
		Rule: "payloader: sequences of 1-6 HEVC NAL units (types 0-47, layer 0-63, TID 1-7, F=0, sizes {3, MTU-6..MTU+3, 2*MTU+-1, random}) over 1-2 calls x MTU >= 4 " +
			"(>= 6 with DONL) x SkipAggregation x AddDONL, payload trains reassembled by an independent RFC 7798 parser and through the H265Packet accessors; " +
			"parser: payloads from an independent encoder (single, AP of 2-6 units, FU, PACI with PHSsize 0-31 and TSCI) with and without DONL/DOND and their " +
			"truncations; exhaustive: all 2^16 payload headers, 2^8 FU headers, 2^16 PACI field words, 2^24 TSCI triples (2^18 sampled in quick); non-trivial = " +
			"sequences with an aggregation or fragmentation, every parser case; distinct = (MTU class, options, unit-size-vs-MTU pattern) / (form, DONL, shape)",
		Floor:     300,
		Technique: "runtime monitor: differential against an independent RFC 7798 parser/reassembler and encoder; exhaustive bit-accessor strata",
		Assumptions: []string{
			"NAL bodies contain no start-code emulation and do not end in 00",
			"DONL/DOND values are not judged, only their placement (the property says 'placed')",
			"truncation is judged where the cut falls inside the mandatory part of the form",
		},
		Strata: []fw.Stratum{
			{Name: "payloader-to-parser", N: fw.Const(300000, 8000000), Run: c14Pay},
			{Name: "independent-encoder-to-parser", N: fw.Const(300000, 8000000), Run: c14Dec},
			{Name: "payload-headers-2^16", N: fw.Const(256, 256), Run: c14Hdr, Exhaustive: true},
			{Name: "fu-headers-2^8", N: fw.Const(1, 1), Run: c14FuHdr, Exhaustive: true},
			{Name: "paci-words-2^16", N: fw.Const(256, 256), Run: c14Paci, Exhaustive: true},
			{Name: "tsci-triples", N: fw.Const(1<<12, 1<<16), Run: c14Tsci},
		},
	})
}

func c14Unit(r *fw.Rand, size int) []byte {
	if size < 3 {
		size = 3
	}
	u := make([]byte, size)
	gen.NALBody(r, u[2:])
	h := ref.H265Hdr{Type: uint8(r.Pick(0, 1, 19, 20, 32, 33, 34, 39, 40, 47, r.Intn(48))), Layer: uint8(r.Pick(0, 0, 0, 1, 63, r.Intn(64))), TID: uint8(r.Pick(0, 1, 1, 2, 7, r.Range(1, 7), r.Range(1, 7), r.Range(1, 7)))}
	if h.TID == 0 {
		// TID 0 is not legal HEVC (it exists to prevent start-code emulation); it is exercised for the aggregation
		// header minimum only, and never together with a second header byte of 0x00 (that would emulate a start code)
		h.Layer |= 1
	}
	copy(u, h.Bytes())
	return u
}

func c14Size(r *fw.Rand, mtu int) int {
	s := r.Pick(3, 4, mtu-6, mtu-5, mtu-4, mtu-3, mtu-2, mtu-1, mtu, mtu+1, mtu+2, mtu+3, 2*mtu-1, 2*mtu, 2*mtu+1, r.Range(3, 4*mtu), r.Range(3, 12), r.Range(3, mtu+4))
	if mtu > 5 && r.Chance(1, 5) {
		// k full FUs (mtu-3, or mtu-5 with DONL) plus a last FU of 0-2 bytes
		s = 2 + r.Range(1, 5)*(mtu-r.Pick(3, 5)) + r.Pick(0, 1, 2)
	}
	if s < 3 {
		s = 3
	}
	if s > 60000 && mtu < 32000 {
		s = 60000
	}
	if s > 140000 {
		s = 140000
	}
	if (mtu >= 1000 && r.Chance(1, 30)) || (mtu >= 64 && r.Chance(1, 120)) || r.Chance(1, 4000) {
		// units beyond 64 KiB at any MTU (more than 65535 fragments at tiny MTUs): 16-bit arithmetic must not be involved
		s = r.Pick(65533, 65534, 65535, 65536, 65537, 65538, 65539, 70000, 131073)
	}
	return s
}

// c14LibUnits reassembles through the library's accessors.
func c14LibUnits(payloads [][]byte, donl bool) (units [][]byte, heads []bool, err error, pv any, st string) {
	pv, st = fw.Guard(func() {
		// first all payloads are parsed - through ONE receiver for every other train, as a depacketizing loop does - and the objects
		// Packet() handed out are collected; their accessors are read only afterwards (an application collects the FUs of a unit until
		// the E bit): what Packet() returned for payload k stays the decoding of payload k
		persistent := len(payloads)%2 == 0
		one := &codecs.H265Packet{}
		one.WithDONL(donl)
		var kept []any
		for i, p := range payloads {
			pk := one
			if !persistent {
				pk = &codecs.H265Packet{}
				pk.WithDONL(donl)
			}
			heads = append(heads, pk.IsPartitionHead(p))
			if _, e := pk.Unmarshal(fw.Exact(p)); e != nil {
				err = fmt.Errorf("payload %d: %w", i, e)
				return
			}
			kept = append(kept, pk.Packet())
		}
		var cur []byte
		for i, obj := range kept {
			switch v := obj.(type) {
			case *codecs.H265SingleNALUnitPacket:
				h := uint16(v.PayloadHeader())
				units = append(units, append([]byte{byte(h >> 8), byte(h)}, v.Payload()...))
			case *codecs.H265AggregationPacket:
				units = append(units, v.FirstUnit().NalUnit())
				for _, o := range v.OtherUnits() {
					units = append(units, o.NalUnit())
				}
			case *codecs.H265FragmentationUnitPacket:
				if v.FuHeader().S() {
					ph := v.PayloadHeader()
					h := ref.H265Hdr{F: ph.F(), Type: v.FuHeader().FuType(), Layer: ph.LayerID(), TID: ph.TID()}
					cur = h.Bytes()
				}
				cur = append(cur, v.Payload()...)
				if v.FuHeader().E() {
					units = append(units, cur)
					cur = nil
				}
			default:
				err = fmt.Errorf("payload %d: unexpected packet type %T", i, v)
				return
			}
		}
	})
	return
}

func c14Pay(c *fw.Ctx, i int) {
	r := c.R
	donl := r.Chance(1, 3)
	skipAgg := r.Chance(1, 3)
	minMTU := 4
	if donl {
		minMTU = 6
	}
	mtu := r.Pick(minMTU, minMTU+1, minMTU+2, minMTU+3, 10, 12, 16, 24, 40, 100, 1200, r.Range(minMTU, 48), r.Range(minMTU, 1500))
	if r.Chance(1, 150) {
		mtu = r.Pick(32767, 32768, 32769, 40000, 65534, 65535) // the MTU is a uint16: values with bit 15 set are ordinary
	}
	p := &codecs.H265Payloader{AddDONL: donl, SkipAggregation: skipAgg}
	ncalls := r.Range(1, 2)
	var expect [][]byte
	var payloads [][]byte
	var callDesc []string
	fTrain := r.Chance(1, 12)
	for cidx := 0; cidx < ncalls; cidx++ {
		n := r.Range(1, 6)
		var units [][]byte
		if r.Chance(1, 80) {
			// access units with very many small NAL units: any fixed-size table inside overflows
			n = r.Pick(31, 32, 33, 34, 35, 64, 65, 66, 100, 255, 256, 257)
			for k := 0; k < n; k++ {
				units = append(units, c14Unit(r, r.Pick(3, 4, 5, r.Range(3, 12), r.Range(3, mtu+3))))
			}
			n = 0
		}
		for k := 0; k < n; k++ {
			units = append(units, c14Unit(r, c14Size(r, mtu)))
			if r.Chance(1, 12) {
				// the same unit again (encoders repeat parameter sets and SEI): byte-identical neighbours are two units
				units = append(units, append([]byte(nil), units[len(units)-1]...))
				c.Count("byte_identical_neighbour_units", 1)
			}
		}
		if mtu >= 16 && r.Chance(1, 3) {
			// small units whose aggregation packet (2 + sum(2 + len) [+ 2 + (k-1) with DONL]) lands on MTU-2 .. MTU+2,
			// optionally followed by one more unit: the "does it still fit" arithmetic is at its edge
			k := r.Range(2, 4)
			over := 2 + 2*k
			if donl {
				over += 2 + (k - 1)
			}
			total := mtu + r.Pick(-2, -1, 0, 1, 2) - over
			if total >= 3*k {
				units = nil
				rest := total
				for q := 0; q < k; q++ {
					sz := 3
					if q == k-1 {
						sz = rest
					} else if rest-3*(k-q) > 0 {
						sz = 3 + r.Intn(rest-3*(k-q)+1)
					}
					rest -= sz
					units = append(units, c14Unit(r, sz))
				}
				if r.Bool() {
					units = append(units, c14Unit(r, r.Pick(3, 4, 5, 8)))
				}
			}
		}
		if fTrain {
			// forbidden_zero_bit set (units damaged in transit, forwarded as they are): F travels with the unit
			for _, u := range units {
				if r.Chance(1, 3) {
					u[0] |= 0x80
				}
			}
		}
		in, sc := gen.AnnexB(r, units)
		var out [][]byte
		if pv, st := fw.Guard(func() { out = p.Payload(uint16(mtu), in) }); pv != nil {
			c.Fail("C14/payloader/panic/"+fw.PanicFunc(st), fmt.Sprintf("H265Payloader.Payload panicked: %v", pv), fw.W("mtu", mtu, "input", fw.Trunc(fw.Hex(in), 400), "stack", st))
			return
		}
		c.Evals(1)
		// copy: returned fragments may alias the input (C08's subject)
		for _, o := range out {
			payloads = append(payloads, append([]byte(nil), o...))
		}
		expect = append(expect, units...)
		d := ""
		for k, u := range units {
			h := ref.ParseH265Hdr(u)
			d += fmt.Sprintf("[sc%d t%d l%d tid%d F%v %dB]", sc[k], h.Type, h.Layer, h.TID, h.F, len(u))
		}
		callDesc = append(callDesc, d)
	}
	wit := func(extra ...any) map[string]any {
		m := fw.W("mtu", mtu, "add_donl", donl, "skip_aggregation", skipAgg, "calls", callDesc, "payloads", fw.HexList(truncList(payloads, 48)))
		for q := 0; q+1 < len(extra); q += 2 {
			m[fmt.Sprint(extra[q])] = extra[q+1]
		}
		return m
	}
	pat := ""
	for k, u := range expect {
		if k < 5 {
			pat += sizeVsMTU(len(u)+2, mtu)
		}
	}
	interesting := false
	defer func() {
		if interesting {
			c.Shapef("mtu%s|donl%v|skip%v|%s|n%d", lenClassS(mtu), donl, skipAgg, pat, len(expect))
		}
	}()
	if c.WantSample() {
		c.Sample(map[string]any{"mtu": mtu, "add_donl": donl, "skip_aggregation": skipAgg, "calls": callDesc, "packets": len(payloads)})
	}
	for k, pl := range payloads {
		if len(pl) > mtu {
			c.Fail("C14/payloader/payload-exceeds-mtu", fmt.Sprintf("payload %d has %d bytes, MTU %d", k, len(pl), mtu), wit())
			return
		}
	}
	units, err := ref.H265Depay(payloads, donl, false)
	deviant := false
	ok := err == nil && len(units) == len(expect)
	if ok {
		for k := range units {
			if !bytes.Equal(units[k].Data, expect[k]) {
				ok = false
			}
		}
	}
	if !ok {
		// classify
		if donl {
			if alt, aerr := ref.H265Depay(payloads, true, true); aerr == nil && len(alt) == len(expect) {
				same := true
				for k := range alt {
					if !bytes.Equal(alt[k].Data, expect[k]) {
						same = false
					}
				}
				if same {
					c.Fail("C14/payloader/donl-present-in-non-start-fu", "with AddDONL every FU carries a DONL field, RFC 7798 puts it in the first FU (S=1) only: an RFC parser reads the extra two bytes of every continuation as payload", wit())
					// keep judging the remaining clauses under the deviant layout (the round trip through
					// the library's RFC-conformant parser is skipped: it necessarily differs)
					units, err, ok, deviant = alt, nil, true, true
				}
			}
		}
	}
	if !ok {
		if err != nil {
			sig := "C14/payloader/not-rfc7798-shaped"
			if bytes.Contains([]byte(err.Error()), []byte("never ended")) || bytes.Contains([]byte(err.Error()), []byte("was not finished")) {
				sig = "C14/payloader/fu-train-without-end-bit"
				// how long is the unit relative to the MTU?
				for _, u := range expect {
					if (len(u) == mtu-1 && !donl) || (len(u) == mtu-3 && donl) {
						sig += "/unit-of-mtu-minus-" + map[bool]string{false: "1", true: "3"}[donl]
						break
					}
				}
			}
			c.Fail(sig, "the payload train violates RFC 7798 structure: "+err.Error(), wit())
			return
		}
		if len(units) != len(expect) {
			c.Fail("C14/payloader/unit-count-differs", fmt.Sprintf("%d NAL units reassembled, %d put in", len(units), len(expect)), wit())
			return
		}
		for k := range units {
			if !bytes.Equal(units[k].Data, expect[k]) {
				c.Fail("C14/payloader/unit-differs/"+units[k].Kind, fmt.Sprintf("reassembled unit %d differs from the input unit", k), wit("got", fw.Trunc(fw.Hex(units[k].Data), 200), "want", fw.Trunc(fw.Hex(expect[k]), 200)))
				return
			}
		}
	}
	heads := map[int]bool{}
	for k, u := range units {
		switch u.Kind {
		case "fu":
			interesting = true
			if u.Last == u.First {
				c.Fail("C14/payloader/fu-single-fragment", "a unit was sent as one FU", wit())
				return
			}
		case "ap":
			interesting = true
			if skipAgg {
				c.Fail("C14/payloader/aggregation-although-skipped", "an aggregation packet was emitted with SkipAggregation", wit())
				return
			}
		}
		heads[u.First] = true
		_ = k
	}
	// AP header = (48, min layer id, min TID), F = 0
	for pi, pl := range payloads {
		d, _ := ref.H265Parse(pl, donl, deviant)
		if d == nil || d.Kind != "ap" {
			continue
		}
		minL, minT := uint8(255), uint8(255)
		for _, u := range d.Units {
			h := ref.ParseH265Hdr(u)
			if h.Layer < minL {
				minL = h.Layer
			}
			if h.TID < minT {
				minT = h.TID
			}
		}
		if d.Hdr.F || d.Hdr.Layer != minL || d.Hdr.TID != minT {
			c.Fail("C14/payloader/ap-header", fmt.Sprintf("payload %d: AP header F=%v layer=%d tid=%d, units need layer=%d tid=%d", pi, d.Hdr.F, d.Hdr.Layer, d.Hdr.TID, minL, minT), wit())
			return
		}
		if donl && (d.DONL == nil || len(d.DONDs) != len(d.Units)-1) {
			c.Fail("C14/payloader/ap-donl-placement", "aggregation packet without DONL/DOND fields where RFC 7798 puts them", wit())
			return
		}
	}
	if deviant {
		c.Count("trains_judged_under_the_known_deviant_donl_layout", 1)
		for k, pl := range payloads {
			if (&codecs.H265Packet{}).IsPartitionHead(pl) != heads[k] {
				c.Fail("C14/ispartitionhead/wrong", fmt.Sprintf("IsPartitionHead(payload %d) = %v, first payload of a unit = %v", k, !heads[k], heads[k]), wit())
				return
			}
		}
		return
	}
	c.Count("payload_trains_lossless", 1)
	for _, u := range expect {
		if u[0]&0x80 != 0 {
			// H265Packet refuses every payload whose forbidden_zero_bit is set (by design: "corrupted h265 packet"), so a train
			// that carries such a unit is judged by the independent RFC 7798 reassembler alone (F must have travelled with the unit)
			c.Count("trains_with_F_bit_units_judged_by_the_reference_parser_only", 1)
			return
		}
	}
	// through the library's parser
	lu, lheads, lerr, pv, st := c14LibUnits(payloads, donl)
	c.Evals(2 * len(payloads))
	if pv != nil {
		c.Fail("C14/parser/panic/"+fw.PanicFunc(st), fmt.Sprintf("H265Packet panicked on payloader output: %v", pv), wit("stack", st))
		return
	}
	if lerr != nil {
		c.Fail("C14/roundtrip/h265packet-rejects-payloader-output", lerr.Error(), wit())
		return
	}
	if len(lu) != len(expect) {
		c.Fail("C14/roundtrip/unit-count-differs", fmt.Sprintf("%d units through H265Packet, %d put in", len(lu), len(expect)), wit())
		return
	}
	for k := range lu {
		if !bytes.Equal(lu[k], expect[k]) {
			c.Fail("C14/roundtrip/unit-differs", fmt.Sprintf("unit %d reassembled through the H265Packet accessors differs", k), wit("got", fw.Trunc(fw.Hex(lu[k]), 200), "want", fw.Trunc(fw.Hex(expect[k]), 200)))
			return
		}
	}
	for k := range payloads {
		if lheads[k] != heads[k] {
			c.Fail("C14/ispartitionhead/wrong", fmt.Sprintf("IsPartitionHead(payload %d) = %v, first payload of a unit = %v", k, lheads[k], heads[k]), wit())
			return
		}
	}
	c.Count("roundtrips_exact", 1)
}

// ---- parser against the independent encoder ----

func c14Dec(c *fw.Ctx, i int) {
	r := c.R
	donl := r.Bool()
	form := r.Intn(4)
	var pl []byte
	var mandatory int // a cut before this offset must be rejected
	exp := &ref.H265Parsed{}
	hdr := ref.H265Hdr{Layer: uint8(r.Pick(0, 1, 63, r.Intn(64))), TID: uint8(r.Range(1, 7))}
	donlV := uint16(r.Pick(0, 1, 0xFFFF, r.Intn(65536)))
	switch form {
	case 0: // single
		hdr.Type = uint8(r.Intn(48))
		pl = hdr.Bytes()
		if donl {
			pl = append(pl, byte(donlV>>8), byte(donlV))
		}
		body := r.Bytes(r.Pick(1, 2, 3, r.Range(1, 40)))
		mandatory = len(pl) + 1
		pl = append(pl, body...)
		exp.Kind, exp.Payload = "single", body
	case 1: // AP
		hdr.Type = 48
		pl = hdr.Bytes()
		n := r.Range(2, 6)
		for k := 0; k < n; k++ {
			u := c14Unit(r, r.Pick(3, 4, r.Range(3, 30)))
			if donl {
				if k == 0 {
					pl = append(pl, byte(donlV>>8), byte(donlV))
				} else {
					dd := uint8(r.Intn(256))
					pl = append(pl, dd)
					exp.DONDs = append(exp.DONDs, dd)
				}
			}
			pl = append(pl, byte(len(u)>>8), byte(len(u)))
			pl = append(pl, u...)
			exp.Units = append(exp.Units, u)
			if k == 1 {
				mandatory = len(pl)
			}
		}
		exp.Kind = "ap"
	case 2: // FU
		hdr.Type = 49
		pl = hdr.Bytes()
		exp.S, exp.E = r.Bool(), false
		if !exp.S {
			exp.E = r.Bool()
		}
		exp.FuType = uint8(r.Intn(48))
		fh := exp.FuType
		if exp.S {
			fh |= 0x80
		}
		if exp.E {
			fh |= 0x40
		}
		pl = append(pl, fh)
		if donl && exp.S {
			pl = append(pl, byte(donlV>>8), byte(donlV))
		}
		body := r.Bytes(r.Pick(1, 2, r.Range(1, 40)))
		mandatory = len(pl) + 1
		pl = append(pl, body...)
		exp.Kind, exp.Payload = "fu", body
	default: // PACI
		hdr.Type = 50
		pl = hdr.Bytes()
		exp.A, exp.CType, exp.PHSsize = r.Bool(), uint8(r.Intn(64)), uint8(r.Pick(0, 1, 2, 3, 4, 31, r.Intn(32)))
		exp.F0, exp.F1, exp.F2, exp.Y = r.Bool(), r.Chance(1, 4), r.Chance(1, 4), r.Chance(1, 4)
		w := uint16(exp.CType)<<9 | uint16(exp.PHSsize)<<4
		if exp.A {
			w |= 0x8000
		}
		if exp.F0 {
			w |= 8
		}
		if exp.F1 {
			w |= 4
		}
		if exp.F2 {
			w |= 2
		}
		if exp.Y {
			w |= 1
		}
		pl = append(pl, byte(w>>8), byte(w))
		exp.PHES = r.Bytes(int(exp.PHSsize))
		pl = append(pl, exp.PHES...)
		body := r.Bytes(r.Pick(1, 2, r.Range(1, 30)))
		mandatory = len(pl) + 1
		pl = append(pl, body...)
		exp.Kind, exp.Payload = "paci", body
	}
	exp.Hdr = hdr
	if back, err := ref.H265Parse(pl, donl, false); err != nil || back.Kind != exp.Kind {
		c.HarnessBug(fmt.Sprintf("reference H265 encoder/parser disagree: %v on %s", err, fw.Hex(pl)))
		return
	}
	formName := []string{"single", "ap", "fu", "paci"}[form]
	wit := func(in []byte, extra ...any) map[string]any {
		m := fw.W("form", formName, "donl", donl, "payload", fw.Hex(in), "full_payload", fw.Hex(pl))
		for q := 0; q+1 < len(extra); q += 2 {
			m[fmt.Sprint(extra[q])] = extra[q+1]
		}
		return m
	}
	parse := func(in []byte) (*codecs.H265Packet, error, bool) {
		pk := &codecs.H265Packet{}
		pk.WithDONL(donl)
		var err error
		if pv, st := fw.Guard(func() { _, err = pk.Unmarshal(in) }); pv != nil {
			c.Fail("C14/parser/panic/"+fw.PanicFunc(st), fmt.Sprintf("H265Packet.Unmarshal panicked: %v", pv), wit(in, "stack", st))
			return nil, nil, false
		}
		c.Evals(1)
		return pk, err, true
	}
	pk, err, okp := parse(fw.Exact(pl))
	if !okp {
		return
	}
	if err != nil {
		c.Fail("C14/parser/rejects-well-formed/"+formName, "H265Packet rejects a well-formed payload: "+err.Error(), wit(pl))
		return
	}
	// compare every accessor
	judge := func(pk *codecs.H265Packet, in []byte, exp *ref.H265Parsed) string {
		eqHdr := func(h codecs.H265NALUHeader) bool {
			return h.F() == exp.Hdr.F && h.Type() == exp.Hdr.Type && h.LayerID() == exp.Hdr.Layer && h.TID() == exp.Hdr.TID
		}
		donlOK := func(got *uint16, want bool) bool {
			if !want {
				return got == nil
			}
			return got != nil && *got == donlV
		}
		switch v := pk.Packet().(type) {
		case *codecs.H265SingleNALUnitPacket:
			if exp.Kind != "single" {
				return "form"
			}
			if !eqHdr(v.PayloadHeader()) {
				return "single/payload-header"
			}
			if !donlOK(v.DONL(), donl) {
				return "single/donl"
			}
			if !bytes.Equal(v.Payload(), exp.Payload) {
				return "single/payload"
			}
		case *codecs.H265AggregationPacket:
			if exp.Kind != "ap" {
				return "form"
			}
			if v.FirstUnit() == nil || len(v.OtherUnits()) != len(exp.Units)-1 {
				return "ap/unit-count"
			}
			if !bytes.Equal(v.FirstUnit().NalUnit(), exp.Units[0]) || int(v.FirstUnit().NALUSize()) != len(exp.Units[0]) {
				return "ap/first-unit"
			}
			if !donlOK(v.FirstUnit().DONL(), donl) {
				return "ap/donl"
			}
			for k, o := range v.OtherUnits() {
				if !bytes.Equal(o.NalUnit(), exp.Units[k+1]) || int(o.NALUSize()) != len(exp.Units[k+1]) {
					return "ap/other-unit"
				}
				if donl != (o.DOND() != nil) || (donl && *o.DOND() != exp.DONDs[k]) {
					return "ap/dond"
				}
			}
		case *codecs.H265FragmentationUnitPacket:
			if exp.Kind != "fu" {
				return "form"
			}
			if !eqHdr(v.PayloadHeader()) {
				return "fu/payload-header"
			}
			if v.FuHeader().S() != exp.S || v.FuHeader().E() != exp.E || v.FuHeader().FuType() != exp.FuType {
				return "fu/fu-header"
			}
			if !donlOK(v.DONL(), donl && exp.S) {
				return "fu/donl"
			}
			if !bytes.Equal(v.Payload(), exp.Payload) {
				return "fu/payload"
			}
		case *codecs.H265PACIPacket:
			if exp.Kind != "paci" {
				return "form"
			}
			if !eqHdr(v.PayloadHeader()) {
				return "paci/payload-header"
			}
			if v.A() != exp.A || v.CType() != exp.CType || v.PHSsize() != exp.PHSsize || v.F0() != exp.F0 || v.F1() != exp.F1 || v.F2() != exp.F2 || v.Y() != exp.Y {
				return "paci/fields"
			}
			if !bytes.Equal(v.PHES(), exp.PHES) {
				return "paci/phes"
			}
			if !bytes.Equal(v.Payload(), exp.Payload) {
				return "paci/payload"
			}
			ts := v.TSCI()
			if exp.F0 && exp.PHSsize >= 3 {
				if ts == nil {
					return "paci/tsci-missing"
				}
				if ts.TL0PICIDX() != exp.PHES[0] || ts.IrapPicID() != exp.PHES[1] || ts.S() != (exp.PHES[2]&0x80 != 0) || ts.E() != (exp.PHES[2]&0x40 != 0) || ts.RES() != exp.PHES[2]&0x3F {
					return "paci/tsci-fields"
				}
			} else if ts != nil {
				return "paci/tsci-unexpected"
			}
		default:
			return "form"
		}
		return ""
	}
	if bad := judge(pk, pl, exp); bad != "" {
		c.Fail("C14/parser/accessor-differs/"+bad, "an accessor of the parsed packet returns something else than the encoded value ("+bad+")", wit(pl))
		return
	}
	head := (&codecs.H265Packet{}).IsPartitionHead(pl)
	if head != !(exp.Kind == "fu" && !exp.S) {
		c.Fail("C14/ispartitionhead/wrong", fmt.Sprintf("IsPartitionHead = %v for a %s payload (S=%v)", head, exp.Kind, exp.S), wit(pl))
		return
	}
	c.Count("payloads_parsed_exactly", 1)
	// truncations
	for cut := 0; cut < len(pl); cut++ {
		in := fw.Exact(pl[:cut])
		pk, err, okp := parse(in)
		if !okp {
			return
		}
		if cut < mandatory {
			if err == nil {
				c.Fail("C14/parser/accepts-truncated/"+formName, fmt.Sprintf("a %s payload cut to %d bytes (mandatory part: %d bytes) is accepted", formName, cut, mandatory), wit(in))
				return
			}
			continue
		}
		if err != nil {
			continue // rejecting a shorter but structurally complete packet is allowed
		}
		// accepted: it must describe only bytes that are there
		e2, rerr := ref.H265Parse(in, donl, false)
		if rerr != nil {
			if exp.Kind == "ap" {
				// cut inside a later unit: the library keeps the complete units before the cut
				if v, ok := pk.Packet().(*codecs.H265AggregationPacket); ok {
					n := 1 + len(v.OtherUnits())
					good := n >= 2 && n <= len(exp.Units) && bytes.Equal(v.FirstUnit().NalUnit(), exp.Units[0])
					for k, o := range v.OtherUnits() {
						if k+1 >= len(exp.Units) || !bytes.Equal(o.NalUnit(), exp.Units[k+1]) {
							good = false
						}
					}
					if good {
						continue
					}
				}
			}
			c.Fail("C14/parser/truncated-accepted-with-wrong-content/"+formName, fmt.Sprintf("payload cut to %d bytes is accepted but is not a complete packet and the reported content is not a prefix of the original", cut), wit(in))
			return
		}
		e2.DONDs = exp.DONDs
		if bad := judge(pk, in, e2); bad != "" {
			c.Fail("C14/parser/truncated-accessor-differs/"+bad, "a shorter but complete packet is accepted with accessors that differ from its bytes ("+bad+")", wit(in))
			return
		}
	}
	c.Shapef("dec|%s|donl%v|len%s|%v%v|phs%d", formName, donl, lenClassS(len(pl)), exp.S, exp.E, exp.PHSsize/8)
	if c.WantSample() {
		c.Sample(map[string]any{"form": formName, "donl": donl, "payload": fw.Trunc(fw.Hex(pl), 160)})
	}
}

func c14Hdr(c *fw.Ctx, i int) {
	for lo := 0; lo < 256; lo++ {
		v := uint16(i<<8 | lo)
		h := codecs.H265NALUHeader(v)
		e := ref.ParseH265Hdr([]byte{byte(v >> 8), byte(v)})
		c.Evals(1)
		if h.F() != e.F || h.Type() != e.Type || h.LayerID() != e.Layer || h.TID() != e.TID {
			c.Fail("C14/bits/payload-header", fmt.Sprintf("header %#04x: F=%v Type=%d LayerID=%d TID=%d, RFC 7798 says F=%v Type=%d LayerID=%d TID=%d", v, h.F(), h.Type(), h.LayerID(), h.TID(), e.F, e.Type, e.Layer, e.TID), fw.W("header", v))
			return
		}
		if h.IsAggregationPacket() != (e.Type == 48) || h.IsFragmentationUnit() != (e.Type == 49) || h.IsPACIPacket() != (e.Type == 50) || h.IsTypeVCLUnit() != (e.Type < 32) {
			c.Fail("C14/bits/payload-header-predicates", fmt.Sprintf("header %#04x (type %d): Is... predicates wrong", v, e.Type), fw.W("header", v))
			return
		}
	}
	c.Shapef("hdr-%02x", i)
	if i == 0x62 {
		c.Sample(map[string]any{"payload_headers": "0x6200..0x62FF (type 49)"})
	}
}

func c14FuHdr(c *fw.Ctx, _ int) {
	for v := 0; v < 256; v++ {
		h := codecs.H265FragmentationUnitHeader(v)
		c.Evals(1)
		if h.S() != (v&0x80 != 0) || h.E() != (v&0x40 != 0) || h.FuType() != uint8(v&0x3F) {
			c.Fail("C14/bits/fu-header", fmt.Sprintf("FU header %#02x: S=%v E=%v FuType=%d", v, h.S(), h.E(), h.FuType()), fw.W("fu_header", v))
			return
		}
		c.Shapef("fu-%02x", v>>2)
	}
	c.Sample(map[string]any{"fu_headers": "all 256"})
}

func c14Paci(c *fw.Ctx, i int) {
	for lo := 0; lo < 256; lo++ {
		w := uint16(i<<8 | lo)
		phs := int(w >> 4 & 0x1F)
		in := []byte{50 << 1, 1, byte(w >> 8), byte(w)}
		in = append(in, make([]byte, phs+1)...)
		for k := 4; k < len(in); k++ {
			in[k] = byte(k * 7)
		}
		var pk codecs.H265PACIPacket
		var err error
		if pv, st := fw.Guard(func() { _, err = pk.Unmarshal(in) }); pv != nil {
			c.Fail("C14/parser/panic/"+fw.PanicFunc(st), fmt.Sprintf("H265PACIPacket.Unmarshal panicked: %v", pv), fw.W("input", fw.Hex(in), "stack", st))
			return
		}
		c.Evals(1)
		if err != nil {
			c.Fail("C14/bits/paci-rejects-well-formed", "a PACI packet with PHES and one payload byte is rejected: "+err.Error(), fw.W("input", fw.Hex(in)))
			return
		}
		if pk.A() != (w&0x8000 != 0) || pk.CType() != uint8(w>>9&0x3F) || int(pk.PHSsize()) != phs || pk.F0() != (w&8 != 0) || pk.F1() != (w&4 != 0) || pk.F2() != (w&2 != 0) || pk.Y() != (w&1 != 0) {
			c.Fail("C14/bits/paci-fields", fmt.Sprintf("PACI word %#04x: A=%v cType=%d PHSsize=%d F0=%v F1=%v F2=%v Y=%v", w, pk.A(), pk.CType(), pk.PHSsize(), pk.F0(), pk.F1(), pk.F2(), pk.Y()), fw.W("word", w))
			return
		}
		if !bytes.Equal(pk.PHES(), in[4:4+phs]) || !bytes.Equal(pk.Payload(), in[4+phs:]) {
			c.Fail("C14/bits/paci-phes-or-payload", fmt.Sprintf("PACI word %#04x: PHES/payload split differs", w), fw.W("input", fw.Hex(in)))
			return
		}
		// one byte short of the mandatory part
		short := in[:len(in)-1]
		var pk2 codecs.H265PACIPacket
		if _, err := pk2.Unmarshal(short); err == nil {
			c.Fail("C14/parser/accepts-truncated/paci", "a PACI packet without payload byte is accepted", fw.W("input", fw.Hex(short)))
			return
		}
	}
	c.Shapef("paci-%02x", i)
	if i == 0 {
		c.Sample(map[string]any{"paci_words": "0x0000..0x00FF"})
	}
}

func c14Tsci(c *fw.Ctx, i int) {
	// thorough: 2^16 cases x 256 = all 2^24 triples; quick: 2^10 cases x 256 = 2^18 sampled triples
	for lo := 0; lo < 256; lo++ {
		var t uint32
		if c.Tier == fw.Thorough {
			t = uint32(i)<<8 | uint32(lo)
		} else {
			t = uint32(c.R.U64()) & 0xFFFFFF
		}
		b0, b1, b2 := byte(t>>16), byte(t>>8), byte(t)
		w := uint16(3<<4 | 8) // PHSsize 3, F0
		in := []byte{50 << 1, 1, byte(w >> 8), byte(w), b0, b1, b2, 0x99}
		var pk codecs.H265PACIPacket
		var ts *codecs.H265TSCI
		if pv, st := fw.Guard(func() {
			if _, err := pk.Unmarshal(in); err == nil {
				ts = pk.TSCI()
			}
		}); pv != nil {
			c.Fail("C14/parser/panic/"+fw.PanicFunc(st), fmt.Sprintf("PACI/TSCI panicked: %v", pv), fw.W("input", fw.Hex(in), "stack", st))
			return
		}
		c.Evals(1)
		if ts == nil {
			c.Fail("C14/bits/tsci-missing", "TSCI() is nil although F0 is set and PHSsize is 3", fw.W("input", fw.Hex(in)))
			return
		}
		if ts.TL0PICIDX() != b0 || ts.IrapPicID() != b1 || ts.S() != (b2&0x80 != 0) || ts.E() != (b2&0x40 != 0) || ts.RES() != b2&0x3F {
			c.Fail("C14/bits/tsci-fields", fmt.Sprintf("TSCI bytes %02x %02x %02x: TL0PICIDX=%d IrapPicID=%d S=%v E=%v RES=%d", b0, b1, b2, ts.TL0PICIDX(), ts.IrapPicID(), ts.S(), ts.E(), ts.RES()), fw.W("input", fw.Hex(in)))
			return
		}
	}
	c.Shapef("tsci-%d", i&0xFF)
	if i == 0 {
		c.Sample(map[string]any{"tsci": "256 (TL0PICIDX, IRAP_PIC_ID, S/E/RES) triples per case"})
	}
}
