//go:build !verif

package props

import (
	"time"

	"github.com/pion/rtp"
	"github.com/pion/rtp/codecs"
)

func hookSetYield(f func()) bool                                         { return false }
func hookSetClock(p rtp.Packetizer, f func() time.Time) bool             { return false }
func hookPacketizerTimestamp(p rtp.Packetizer) (uint32, bool)            { return 0, false }
func hookRetainedH264Payloader(p *codecs.H264Payloader) ([][]byte, bool) { return nil, false }
func hookRetainedH264Packet(p *codecs.H264Packet) ([][]byte, bool)       { return nil, false }
func hookRetainedAV1(p *codecs.AV1Depacketizer) ([][]byte, bool)         { return nil, false }

func hookSetSequencerState(s rtp.Sequencer, last uint16, roll uint64) bool { return false }
