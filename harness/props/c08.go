package props

import (
	"bytes"
	"fmt"
	"runtime"
	"sync"

	"github.com/pion/rtp"
	"github.com/pion/rtp/codecs"

	"verifharness/fw"
	"verifharness/gen"
	"verifharness/ref"
)

func init() {
	fw.Register(&fw.Prop{
		ID:    "C08",
		Level: "exploration",
		Rule: "cases = (payloader + options, MTU, 1-4 inputs fed to one instance): G711, G722, Opus, H264{StapA on/off}, H265{DONL x SkipAggregation}, VP8{picture id on/off}, " +
			"VP9{flexible, non-flexible, nil InitialPictureIDFn}, AV1; every MTU 0-16 exhaustively crossed with every payloader, then {17..64, 100, 1200, 1460, 65535, " +
			"random}; inputs: random bytes, bytes seeded with start codes / OBU headers / VP9 frame markers, valid streams of the codec generators, nil and empty, " +
			"lengths 0..4*MTU (capped); each instance run is twinned (inputs preserved vs inputs overwritten after every return) and watched by an " +
			"address-range overlap monitor; a race-build phase reads the current input and overwrites the previous input concurrently with Payload; " +
			"non-trivial = a run in which at least one call returned >= 1 fragment; distinct = (payloader, MTU class, input kind, fragment-count class, call count)",
		Floor:     400,
		Technique: "runtime monitor: recover() guard, MTU bound, input-immutability compare, address-range overlap monitor (fragments and hooked retained state vs caller memory), scribble twin, race detector tripwire",
		Assumptions: []string{
			"VP9 with a nil InitialPictureIDFn draws a random start id by design: its twin comparison ignores the picture id bytes",
			"the race-detector tripwire is secondary (buffers >= 64 bytes); overlap and twin monitors decide ownership",
		},
		Strata: []fw.Stratum{
			{Name: "mtu-0-16-all-payloaders", N: fw.Const(17*len(c08Kinds)*30, 17*len(c08Kinds)*600), Run: c08Small, Exhaustive: false},
			{Name: "instance-runs", N: fw.Const(300000, 8000000), Run: c08Run},
			{Name: "race-tripwire", N: fw.Const(6000, 300000), Run: c08Race, Race: true},
		},
	})
}

type c08Kind struct {
	name   string
	mk     func() rtp.Payloader
	opus   bool
	random bool // output depends on a random draw (VP9 nil fn)
	codec  string
}

var c08Kinds = []c08Kind{
	{"g711", func() rtp.Payloader { return &codecs.G711Payloader{} }, false, false, "audio"},
	{"g722", func() rtp.Payloader { return &codecs.G722Payloader{} }, false, false, "audio"},
	{"opus", func() rtp.Payloader { return &codecs.OpusPayloader{} }, true, false, "audio"},
	{"h264-stapa", func() rtp.Payloader { return &codecs.H264Payloader{} }, false, false, "h264"},
	{"h264-nostapa", func() rtp.Payloader { return &codecs.H264Payloader{DisableStapA: true} }, false, false, "h264"},
	{"h265", func() rtp.Payloader { return &codecs.H265Payloader{} }, false, false, "h265"},
	{"h265-donl", func() rtp.Payloader { return &codecs.H265Payloader{AddDONL: true} }, false, false, "h265"},
	{"h265-skipagg", func() rtp.Payloader { return &codecs.H265Payloader{SkipAggregation: true} }, false, false, "h265"},
	{"h265-donl-skipagg", func() rtp.Payloader { return &codecs.H265Payloader{AddDONL: true, SkipAggregation: true} }, false, false, "h265"},
	{"vp8", func() rtp.Payloader { return &codecs.VP8Payloader{} }, false, false, "vp8"},
	{"vp8-pid", func() rtp.Payloader { return &codecs.VP8Payloader{EnablePictureID: true} }, false, false, "vp8"},
	{"vp9-flex", func() rtp.Payloader {
		return &codecs.VP9Payloader{FlexibleMode: true, InitialPictureIDFn: func() uint16 { return 0x7FFE }}
	}, false, false, "vp9"},
	{"vp9-nonflex", func() rtp.Payloader { return &codecs.VP9Payloader{InitialPictureIDFn: func() uint16 { return 7 }} }, false, false, "vp9"},
	{"vp9-nilfn", func() rtp.Payloader { return &codecs.VP9Payloader{FlexibleMode: true} }, false, true, "vp9"},
	{"av1", func() rtp.Payloader { return &codecs.AV1Payloader{} }, false, false, "av1"},
}

// c08Toggle flips one exported option of a payloader (which one depends on the call index).
func c08Toggle(p rtp.Payloader, call int) {
	switch v := p.(type) {
	case *codecs.H264Payloader:
		v.DisableStapA = !v.DisableStapA
	case *codecs.H265Payloader:
		if call%2 == 0 {
			v.AddDONL = !v.AddDONL
		} else {
			v.SkipAggregation = !v.SkipAggregation
		}
	case *codecs.VP8Payloader:
		v.EnablePictureID = !v.EnablePictureID
	case *codecs.VP9Payloader:
		v.FlexibleMode = !v.FlexibleMode
	}
}

// c08Input draws an input for the codec. kind names the construction.
func c08Input(r *fw.Rand, codec string, mtu int) ([]byte, string) {
	maxLen := 4*mtu + 8
	if maxLen > 200000 {
		maxLen = 200000
	}
	if mtu < 16 {
		maxLen = 80
	}
	switch r.Intn(10) {
	case 0:
		if r.Bool() {
			return nil, "nil"
		}
		return []byte{}, "empty"
	case 1, 2: // plain random
		return r.Bytes(maxI(0, r.Pick(1, 2, 3, mtu-1, mtu, mtu+1, 2*mtu, r.Range(1, maxLen)))), "random"
	case 3, 4, 5: // seeded with structure markers
		b := r.Bytes(r.Range(1, maxLen))
		for k := r.Range(1, 6); k > 0; k-- {
			pos := r.Intn(len(b))
			var mark []byte
			switch r.Intn(8) {
			case 0:
				mark = []byte{0, 0, 1}
			case 1:
				mark = []byte{0, 0, 0, 1}
			case 2:
				mark = []byte{0, 0, 1, 0x67, 0x42} // SPS
			case 3:
				mark = []byte{0, 0, 1, 0x68, 0xCE} // PPS
			case 4:
				mark = []byte{0x0A, 0x0B, 0, 0, 0} // OBU sequence header with size
			case 5:
				mark = []byte{0x32, byte(r.Intn(40))} // OBU frame with size field
				if r.Chance(1, 3) {
					mark = append([]byte{byte(r.Pick(0x32, 0x0A, 0x12, 0x36))}, gen.LEBMonster(r)...) // ... whose size field is a LEB128 monster
				}
			case 6:
				mark = []byte{0x82, 0x49, 0x83, 0x42, 0x00} // VP9 key frame start
			default:
				mark = []byte{0, 0, 0}
				if r.Bool() {
					mark = gen.Magics[r.Intn(len(gen.Magics))]
				}
			}
			if r.Chance(1, 3) {
				pos = 0
			}
			copy(b[pos:], mark)
		}
		return b, "seeded"
	}
	// valid stream for the codec
	switch codec {
	case "h264":
		var units [][]byte
		for k := r.Range(1, 5); k > 0; k-- {
			t := r.Pick(1, 5, 7, 8, 9, 12, 6, 1, 5)
			units = append(units, gen.H264Unit(r, t, gen.H264Size(r, maxI(mtu, 3))))
		}
		b, _ := gen.AnnexB(r, units)
		return b, "valid"
	case "h265":
		var units [][]byte
		for k := r.Range(1, 5); k > 0; k-- {
			units = append(units, c14Unit(r, c14Size(r, maxI(mtu, 4))))
		}
		b, _ := gen.AnnexB(r, units)
		return b, "valid"
	case "av1":
		obus := c13OBUs(r, maxI(mtu, 2))
		var b []byte
		for k := range obus {
			b = append(b, obus[k].Raw(k < len(obus)-1 || r.Bool())...)
		}
		return b, "valid"
	case "vp8":
		n := r.Pick(10, 11, mtu, 2*mtu, 3*mtu+1, r.Range(3, maxLen))
		return gen.VP8Frame(r, maxI(n, 3), r.Chance(2, 3), r.Pick(-1, mtu-1, 2*(mtu-1), 2*(mtu-3), mtu-4)), "valid"
	case "vp9":
		h := c12Header(r, true)
		hb, _ := h.Encode()
		if r.Chance(1, 3) {
			// a frame that ends inside (or right after) its uncompressed header
			return append([]byte(nil), hb[:r.Intn(len(hb)+1)]...), "valid-header-cut"
		}
		return append(hb, r.Bytes(r.Range(0, maxLen))...), "valid"
	}
	return r.Bytes(r.Range(1, maxLen)), "random"
}

func maxI(a, b int) int {
	if a > b {
		return a
	}
	return b
}

type memRange struct{ lo, hi uintptr }

func rangeOfBytes(b []byte) memRange {
	lo, hi := rangeOf(b)
	return memRange{lo, hi}
}

func c08Retained(p rtp.Payloader) ([][]byte, bool) {
	if hp, ok := p.(*codecs.H264Payloader); ok {
		return hookRetainedH264Payloader(hp)
	}
	return nil, false
}

// c08Instance runs one instance twin pair over the inputs.
func c08Instance(c *fw.Ctx, kind c08Kind, mtu int, inputs [][]byte, inKinds []string) {
	a, b := kind.mk(), kind.mk()
	other := kind.mk() // an unrelated stream of the same kind, interleaved: instances must not share buffers
	var returnedA [][][]byte
	var returnedACopy [][][]byte
	if kind.codec == "vp8" || kind.codec == "vp9" {
		// instances that have already sent frames: descriptor sizes change with the running picture id (7 -> 15 bit at 128)
		warm := []int{0, 0, 126, 127, 128}[len(inputs)%5]
		if c.Index%61 == 7 {
			warm = 32766 + len(inputs)%4 // ... and wrap back to the short form after 32768 frames
			c.Count("instances_warmed_up_across_the_15_bit_wrap", 1)
		}
		for w := 0; w < warm; w++ {
			a.Payload(1200, []byte{0x82, 0x49, 0x83, 0x42, 0x00})
			b.Payload(1200, []byte{0x82, 0x49, 0x83, 0x42, 0x00})
		}
	}
	var callerMem []memRange
	var keepAlive [][]byte // the caller keeps its buffers: their memory must not be recycled while ranges are compared
	var keptA [][][]byte   // fragments returned by A, with pristine copies
	var keptACopy [][][]byte
	anyFrag := false
	maxFr := 0
	wit := func(call int, extra ...any) map[string]any {
		var ins []string
		for k, in := range inputs {
			ins = append(ins, fmt.Sprintf("%s:%s", inKinds[k], fw.Trunc(fw.Hex(in), 160)))
		}
		m := fw.W("payloader", kind.name, "mtu", mtu, "call_index", call, "inputs", ins)
		for q := 0; q+1 < len(extra); q += 2 {
			m[fmt.Sprint(extra[q])] = extra[q+1]
		}
		return m
	}
	mtu0 := mtu
	for call, in := range inputs {
		if len(inputs) >= 2 && len(inKinds[0])%3 == 0 {
			// the MTU is an argument of every call: nothing derived from it may be carried over from an earlier call
			mtu = []int{mtu0, mtu0 + 7, mtu0/2 + 1, mtu0 + 1}[call%4]
			if mtu > 65535 {
				mtu = 65535
			}
		}
		if call > 0 && len(inputs) >= 2 && (len(inputs[0])+len(inputs))%3 == 0 {
			// the option fields are exported: the application flips one between two calls (both twins alike)
			c08Toggle(a, call)
			c08Toggle(b, call)
			c.Count("options_flipped_between_calls", 1)
		}
		// now and then the application hands a fragment it got from the previous call straight back in (the very slice):
		// whatever the payloader remembers about its own outputs, the new fragments must be new memory
		var feedback []byte
		if call > 0 && len(returnedA) == call && len(returnedA[call-1]) > 0 && (len(inputs[0])+call)%4 == 0 {
			feedback = returnedA[call-1][len(returnedA[call-1])-1]
		}
		if len(feedback) == 0 {
			feedback = nil // nil and empty inputs are told apart by some payloaders; an empty fragment fed back proves nothing
		} else {
			in = append([]byte(nil), feedback...)
			inputs[call], inKinds[call] = in, "fragment-of-previous-call"
			c.Count("calls_fed_with_a_fragment_of_the_previous_call", 1)
		}
		// A gets a private copy it may keep forever; B gets one that is overwritten after the call
		inA := fw.Exact(in)
		inB := fw.Exact(in)
		if feedback != nil {
			inA = feedback
		}
		canary := func() bool { return false }
		roInput := false
		if feedback == nil && len(in) > 0 && (len(inputs[0])+3*call)%16 == 5 {
			// a write-protected input: any store into it faults, also one that is undone before the call returns
			if ro, release, ok := fw.ReadOnly(in); ok {
				inA, roInput = ro, true
				defer release()
				c.Count("calls_with_write_protected_input", 1)
			}
		}
		if call%2 == 1 && feedback == nil && !roInput {
			// a caller buffer with spare capacity: the bytes beyond len are the caller's too
			inA, canary = fw.Roomy(in, 24)
		}
		pristine := append([]byte(nil), in...)
		var outA, outB [][]byte
		if pv, st, fault := fw.GuardFault(func() { outA = a.Payload(uint16(mtu), inA) }); pv != nil {
			if fault && roInput {
				c.Fail("C08/"+kind.name+"/input-modified/write-protected-input/"+fw.PanicFunc(st), "the payloader stores into the caller's input buffer (the input was write-protected: the store faulted)", wit(call, "stack", st))
				return
			}
			c.Fail("C08/"+kind.name+"/panic/"+fw.PanicFunc(st), fmt.Sprintf("Payload panicked: %v", pv), wit(call, "stack", st))
			return
		}
		if pv, st := fw.Guard(func() { outB = b.Payload(uint16(mtu), inB) }); pv != nil {
			c.Fail("C08/"+kind.name+"/panic/"+fw.PanicFunc(st), fmt.Sprintf("Payload panicked (twin): %v", pv), wit(call, "stack", st))
			return
		}
		c.Evals(2)
		c.Count("payload_calls_judged", 2)
		{
			cp := make([][]byte, len(outA))
			for k, f := range outA {
				cp[k] = append([]byte(nil), f...)
			}
			returnedA, returnedACopy = append(returnedA, outA), append(returnedACopy, cp)
			// the unrelated stream: different bytes, same shape
			oin := append([]byte(nil), pristineOf(in)...)
			for k := range oin {
				oin[k] ^= 0x5A
			}
			if len(oin) > 0 && kind.codec != "audio" {
				oin[0] = in[0] // keep the leading structure byte so that the other stream takes the same code path
			}
			fw.Guard(func() { other.Payload(uint16(mtu), oin) })
			for ci := range returnedA {
				for k := range returnedA[ci] {
					if !bytes.Equal(returnedA[ci][k], returnedACopy[ci][k]) {
						c.Fail("C08/"+kind.name+"/returned-fragment-changes-when-another-instance-is-used", fmt.Sprintf("fragment %d returned by call %d of one instance changed after a Payload call on ANOTHER instance of the same payloader", k, ci), wit(call))
						return
					}
				}
			}
		}
		// input untouched
		if !bytes.Equal(inA, pristine) || !bytes.Equal(inB, pristine) {
			c.Fail("C08/"+kind.name+"/input-modified", "the payloader modified the caller's input buffer", wit(call))
			return
		}
		if canary() {
			c.Fail("C08/"+kind.name+"/input-modified/beyond-len-within-capacity", "the payloader wrote into the spare capacity of the caller's input slice", wit(call))
			return
		}
		callerMem = append(callerMem, rangeOfBytes(inA), rangeOfBytes(inB))
		keepAlive = append(keepAlive, inA, inB)
		// bounds
		for k, f := range outA {
			if kind.opus {
				if len(outA) != 1 || !bytes.Equal(f, pristine) {
					c.Fail("C08/opus/not-one-equal-fragment", "Opus must return the input as one fragment", wit(call))
					return
				}
				continue
			}
			if len(f) > mtu {
				c.Fail("C08/"+kind.name+"/fragment-exceeds-mtu", fmt.Sprintf("fragment %d of call %d has %d bytes, MTU %d", k, call, len(f), mtu), wit(call, "fragment", fw.Trunc(fw.Hex(f), 120)))
				return
			}
			if len(f) == 0 && len(in) > 0 {
				c.Fail("C08/"+kind.name+"/empty-fragment", fmt.Sprintf("fragment %d of call %d is empty for a non-empty input", k, call), wit(call))
				return
			}
		}
		if len(outA) > maxFr {
			maxFr = len(outA)
		}
		if len(outA) > 0 {
			anyFrag = true
		}
		// overlap: no returned fragment may lie in caller memory (any input ever passed)
		for k, f := range outA {
			fr := rangeOfBytes(f)
			for _, m := range callerMem {
				if overlaps(fr.lo, fr.hi, m.lo, m.hi) {
					c.Fail("C08/"+kind.name+"/fragment-aliases-input", fmt.Sprintf("fragment %d of call %d lies inside the caller's input buffer", k, call), wit(call, "fragment_len", len(f)))
					return
				}
			}
		}
		for k, f := range outB {
			fr := rangeOfBytes(f)
			for _, m := range callerMem {
				if overlaps(fr.lo, fr.hi, m.lo, m.hi) {
					c.Fail("C08/"+kind.name+"/fragment-aliases-input", fmt.Sprintf("fragment %d of call %d lies inside the caller's input buffer", k, call), wit(call, "fragment_len", len(f)))
					return
				}
			}
		}
		// returned fragments own their storage: no two of them (of this or an earlier call) may share a backing array
		// (appending to one within its capacity would overwrite the other)
		{
			var rs []memRange
			for _, f := range outA {
				rs = append(rs, rangeOfBytes(f))
			}
			lim := len(rs)
			if lim > 64 {
				lim = 64 // neighbours are what matters; keep the pairwise check bounded for huge fragment counts
			}
			for x := 0; x < len(rs); x++ {
				for y := x + 1; y < len(rs) && y <= x+lim; y++ {
					if overlaps(rs[x].lo, rs[x].hi, rs[y].lo, rs[y].hi) {
						c.Fail("C08/"+kind.name+"/fragments-share-storage", fmt.Sprintf("fragments %d and %d of call %d share a backing array (capacity ranges overlap)", x, y, call), wit(call))
						return
					}
				}
			}
		}
		if ret, ok := c08Retained(a); ok {
			c.Count("retained_state_overlap_checks(hook)", 1)
			for _, s := range ret {
				sr := rangeOfBytes(s)
				for _, m := range callerMem {
					if overlaps(sr.lo, sr.hi, m.lo, m.hi) {
						c.Fail("C08/"+kind.name+"/retained-state-aliases-input", "state kept for later calls lies inside the caller's input buffer", wit(call, "retained_len", len(s)))
						return
					}
				}
			}
		}
		// twin: same outputs so far
		if !kind.random {
			if len(outA) != len(outB) {
				c.Fail("C08/"+kind.name+"/twin-output-differs/after-input-overwrite", fmt.Sprintf("call %d: %d fragments with inputs preserved, %d with earlier inputs overwritten", call, len(outA), len(outB)), wit(call))
				return
			}
			for k := range outA {
				if !bytes.Equal(outA[k], outB[k]) {
					c.Fail("C08/"+kind.name+"/twin-output-differs/after-input-overwrite", fmt.Sprintf("call %d fragment %d differs between the instance whose earlier inputs were preserved and the one whose inputs were overwritten", call, k),
						wit(call, "preserved", fw.Trunc(fw.Hex(outA[k]), 200), "overwritten", fw.Trunc(fw.Hex(outB[k]), 200)))
					return
				}
			}
		}
		keptA = append(keptA, outB)
		cp := make([][]byte, len(outB))
		for k, f := range outB {
			cp[k] = append([]byte(nil), f...)
		}
		keptACopy = append(keptACopy, cp)
		// now overwrite B's input: nothing returned so far may change
		for k := range inB {
			inB[k] = ^inB[k]
		}
		for ci := range keptA {
			for k := range keptA[ci] {
				if !bytes.Equal(keptA[ci][k], keptACopy[ci][k]) {
					c.Fail("C08/"+kind.name+"/returned-fragment-changes-when-input-overwritten", fmt.Sprintf("fragment %d returned by call %d changed after the input of call %d was overwritten", k, ci, call), wit(call))
					return
				}
			}
		}
	}
	runtime.KeepAlive(keepAlive)
	if anyFrag {
		fc := "1"
		if maxFr == 2 {
			fc = "2"
		} else if maxFr > 2 {
			fc = "n"
		}
		c.Shapef("%s|mtu%s|%v|f%s|calls%d", kind.name, lenClassS(mtu), inKinds, fc, len(inputs))
	}
	if c.WantSample() {
		c.Sample(map[string]any{"payloader": kind.name, "mtu": mtu, "calls": len(inputs), "input_kinds": inKinds, "max_fragments": maxFr})
	}
}

func c08Small(c *fw.Ctx, i int) {
	per := len(c08Kinds) * 17
	k := i % per
	mtu := k % 17
	kind := c08Kinds[k/17]
	n := c.R.Range(1, 4)
	var ins [][]byte
	var kinds []string
	for q := 0; q < n; q++ {
		in, ik := c08Input(c.R, kind.codec, mtu)
		ins, kinds = append(ins, in), append(kinds, ik)
	}
	c08Instance(c, kind, mtu, ins, kinds)
}

func c08Run(c *fw.Ctx, i int) {
	r := c.R
	kind := c08Kinds[i%len(c08Kinds)]
	mtu := r.Pick(17, 20, 31, 32, 33, 48, 64, 100, 1200, 1460, 65535, r.Range(17, 64), r.Range(17, 64), r.Range(65, 3000), r.Range(0, 65535))
	n := r.Range(1, 4)
	var ins [][]byte
	var kinds []string
	if kind.codec == "av1" && r.Chance(1, 5) {
		// free space at a LEB128 size-class boundary when a large OBU starts (see C13's boundary stratum)
		bm, obus := c13BoundaryCase(r)
		var in []byte
		for k := range obus {
			in = append(in, obus[k].Raw(true)...)
		}
		c08Instance(c, kind, bm, [][]byte{in}, []string{"leb128-boundary"})
		return
	}
	if r.Chance(1, 400) {
		// one input that needs more than 65535 fragments at a tiny MTU
		mtu = r.Pick(1, 2, 3, 4, 5, 6, 8, 12)
		in := r.Bytes(r.Pick(65536, 65537, 66000, 70001))
		switch kind.codec {
		case "h264":
			copy(in, gen.H264Unit(r, 5, len(in)))
		case "h265":
			copy(in, c14Unit(r, len(in)))
		case "av1":
			in[0] = 6 << 3
		case "vp9":
			hb, _ := c12Header(r, false).Encode()
			copy(in, hb)
			if kind.name == "vp9-nonflex" && mtu == 12 {
				in = append(in, r.Bytes(9*65536)...)
			}
		}
		c08Instance(c, kind, mtu, [][]byte{in}, []string{"many-fragments"})
		return
	}
	for q := 0; q < n; q++ {
		in, ik := c08Input(r, kind.codec, mtu)
		if ik == "valid" && len(in) > 0 && r.Chance(1, 8) {
			in, ik = in[:r.Intn(len(in)+1)], "valid-cut" // a well-formed stream that stops anywhere: inside a start code, a size field, a header
		}
		if len(in) > 200000 {
			in = in[:200000]
		}
		ins, kinds = append(ins, in), append(kinds, ik)
	}
	c08Instance(c, kind, mtu, ins, kinds)
}

// c08Race: a reader goroutine checksums the current input while Payload runs
// (any library write is a race), a writer goroutine overwrites the previous
// call's input while the next Payload runs (any read through a retained alias
// is a race).
func c08Race(c *fw.Ctx, i int) {
	r := c.R
	kind := c08Kinds[i%len(c08Kinds)]
	p := kind.mk()
	mtu := r.Pick(100, 200, 1200, r.Range(70, 400))
	var prev []byte
	for call := 0; call < 3; call++ {
		in, _ := c08Input(r, kind.codec, mtu)
		for len(in) < 64 {
			in = append(in, r.Bytes(64)...)
		}
		if kind.codec == "h264" && call < 2 {
			// make sure parameter sets are held back across calls
			sps := gen.H264Unit(r, 7, 80)
			pps := gen.H264Unit(r, 8, 70)
			in = append(append(append([]byte{0, 0, 1}, sps...), append([]byte{0, 0, 1}, pps...)...), in...)
		}
		var wg sync.WaitGroup
		stop := make(chan struct{})
		wg.Add(1)
		cur := in
		go func() { // reader of the current input
			defer wg.Done()
			var sum byte
			for {
				select {
				case <-stop:
					_ = sum
					return
				default:
					for _, x := range cur {
						sum += x
					}
				}
			}
		}()
		if prev != nil {
			wg.Add(1)
			pv := prev
			scr := r.Bytes(len(pv))
			go func() { // writer to the previous input
				defer wg.Done()
				for n := 0; ; n++ {
					select {
					case <-stop:
						return
					default:
						copy(pv, scr)
					}
				}
			}()
		}
		fw.Guard(func() { _ = p.Payload(uint16(mtu), in) })
		close(stop)
		wg.Wait()
		c.Evals(1)
		prev = in
	}
	c.Count("race_tripwire_instance_runs", 1)
	c.Shapef("race|%s", kind.name)
	_ = ref.ExtNone
}

func pristineOf(b []byte) []byte { return b }
