package props

import (
	"bytes"
	"fmt"

	"github.com/pion/rtp/codecs"

	"verifharness/fw"
	"verifharness/gen"
	"verifharness/ref"
)

func init() {
	fw.Register(&fw.Prop{
		ID:    "C11",
		Level: "exploration",
		Rule: "payloader: one case = one VP8Payloader instance fed consecutive frames (frame sizes 1..4*MTU, MTU from descriptor+1 up), short runs (3-300 frames) " +
			"and long runs (33 000 frames, crossing the 7->15 bit switch at 128 and the wrap 32767->0 with the real counter), picture ids on and off; every packet " +
			"is parsed by an independent RFC 7741 descriptor parser and by VP8Packet; decoder: every combination of the flag bits X,R,N,S,R,I,L,T,K,M (2^10) x PID " +
			"{0,1,4,7} x RSV {0,15} with field values from {0, 1, mid, max, random}, followed by 0-8 payload bytes, plus every truncation inside the descriptor; " +
			"non-trivial = frames needing >= 2 packets, instance runs crossing 128 or the wrap, every decoder case with X=1; distinct = (mode, MTU class, " +
			"fragment-count class, id-form class) and decoder flag bytes",
		Floor:     300,
		Technique: "runtime monitor: concatenation oracle + shadow picture-id counter + independent RFC 7741 descriptor parser/encoder; exhaustive flag space for the decoder",
		Assumptions: []string{
			"fields whose presence flag is clear are not compared (the RFC says they are ignored)",
			"a complete descriptor is accepted whatever follows it, also when no payload byte follows (it is not cut short)",
		},
		Strata: []fw.Stratum{
			{Name: "payloader-short-runs", N: fw.Const(40000, 1000000), Run: c11Short},
			{Name: "payloader-long-runs", N: fw.Const(16, 300), Run: c11Long},
			{Name: "descriptor-flag-space", N: fw.Const(8192, 8192), Run: c11Dec, Exhaustive: true},
		},
	})
}

// c11Frame checks one frame's packets. k is the frame index on this instance.
func c11Frame(c *fw.Ctx, p *codecs.VP8Payloader, kp *keeper, pidOn bool, k int, mtu int, frame []byte, sampleEvery bool) bool {
	var pkts [][]byte
	if pv, st := fw.Guard(func() { pkts = p.Payload(uint16(mtu), frame) }); pv != nil {
		c.Fail("C11/payloader/panic/"+fw.PanicFunc(st), fmt.Sprintf("VP8Payloader.Payload panicked: %v", pv), fw.W("mtu", mtu, "frame_len", len(frame), "frame_index", k, "stack", st))
		return false
	}
	c.Evals(1)
	if kp != nil {
		// the packet lists of earlier frames are still queued by the application: they stay what they were
		if len(pkts) <= 64 && len(kp.lists) < 48 {
			kp.addList(fmt.Sprintf("the packet list returned for frame %d", k), pkts)
		}
		if what, ch := kp.changed(); ch {
			c.Fail("C11/payloader/earlier-result-changed-by-a-later-call", "a later Payload call changed "+what, fw.W("mtu", mtu, "frame_index", k))
			return false
		}
	}
	wantID := uint16(k % 32768)
	wit := func(extra ...any) map[string]any {
		m := fw.W("mtu", mtu, "frame_len", len(frame), "frame_index_on_instance", k, "picture_ids", pidOn, "expected_picture_id", wantID, "packets", fw.HexList(truncList(pkts, 24)))
		for q := 0; q+1 < len(extra); q += 2 {
			m[fmt.Sprint(extra[q])] = extra[q+1]
		}
		return m
	}
	if len(pkts) == 0 {
		c.Fail("C11/payloader/no-packets", "no packet for a non-empty frame and an MTU larger than the descriptor", wit())
		return false
	}
	idClass := "off"
	if pidOn {
		switch {
		case wantID == 0:
			idClass = "id-0"
		case wantID < 128:
			idClass = "id-7bit"
		default:
			idClass = "id-15bit"
		}
	}
	var cat []byte
	for j, pk := range pkts {
		if len(pk) > mtu {
			c.Fail("C11/payloader/packet-exceeds-mtu", fmt.Sprintf("packet %d has %d bytes, MTU %d", j, len(pk), mtu), wit())
			return false
		}
		d, n, err := ref.VP8Parse(pk)
		if err != nil {
			c.Fail("C11/payloader/descriptor-malformed", fmt.Sprintf("packet %d: %v", j, err), wit())
			return false
		}
		if d.S != (j == 0) {
			c.Fail("C11/payloader/s-bit", fmt.Sprintf("packet %d of %d has S=%v", j, len(pkts), d.S), wit())
			return false
		}
		if d.PID != 0 {
			c.Fail("C11/payloader/partition-index", fmt.Sprintf("packet %d has PID %d", j, d.PID), wit())
			return false
		}
		if pidOn {
			if !d.X || !d.I {
				c.Fail("C11/payloader/picture-id-missing/"+idClass, fmt.Sprintf("packet %d carries no picture id (frame %d on this instance)", j, k), wit())
				return false
			}
			if d.PictureID != wantID {
				c.Fail("C11/payloader/picture-id-value/"+idClass, fmt.Sprintf("packet %d carries picture id %d, the running id is %d", j, d.PictureID, wantID), wit())
				return false
			}
			if d.M != (wantID >= 128) {
				c.Fail("C11/payloader/picture-id-form/"+idClass, fmt.Sprintf("packet %d uses M=%v for picture id %d", j, d.M, wantID), wit())
				return false
			}
		}
		if d.L || d.T || d.K {
			c.Fail("C11/payloader/unexpected-descriptor-fields", "the payloader set L/T/K", wit())
			return false
		}
		// the library's own decoder must agree with the reference parse
		var vp codecs.VP8Packet
		var body []byte
		var uerr error
		var head bool
		if pv, st := fw.Guard(func() {
			body, uerr = vp.Unmarshal(pk)
			head = vp.IsPartitionHead(pk)
		}); pv != nil {
			c.Fail("C11/decoder/panic/"+fw.PanicFunc(st), fmt.Sprintf("VP8Packet panicked on payloader output: %v", pv), wit("stack", st))
			return false
		}
		if uerr != nil {
			c.Fail("C11/roundtrip/vp8packet-rejects-payloader-output", uerr.Error(), wit())
			return false
		}
		if !bytes.Equal(body, pk[n:]) {
			c.Fail("C11/roundtrip/vp8packet-payload-differs", fmt.Sprintf("VP8Packet returns %d bytes, the descriptor is %d bytes long", len(body), n), wit())
			return false
		}
		if head != (j == 0) || (vp.S == 1) != (j == 0) {
			c.Fail("C11/roundtrip/partition-head", fmt.Sprintf("packet %d: IsPartitionHead=%v S=%d", j, head, vp.S), wit())
			return false
		}
		if pidOn && (vp.I != 1 || vp.PictureID != wantID) {
			c.Fail("C11/roundtrip/vp8packet-picture-id", fmt.Sprintf("VP8Packet reports I=%d PictureID=%d", vp.I, vp.PictureID), wit())
			return false
		}
		cat = append(cat, body...)
	}
	if !bytes.Equal(cat, frame) {
		c.Fail("C11/payloader/concatenation-differs", fmt.Sprintf("packet payloads concatenate to %d bytes, the frame has %d", len(cat), len(frame)), wit())
		return false
	}
	c.Count("frames_lossless", 1)
	if len(pkts) >= 2 || sampleEvery {
		fc := "2"
		if len(pkts) > 2 {
			fc = "n"
		} else if len(pkts) < 2 {
			fc = "1"
		}
		c.Shapef("pay|%s|mtu%s|f%s", idClass, lenClassS(mtu), fc)
	}
	return true
}

func c11Short(c *fw.Ctx, i int) {
	r := c.R
	pidOn := r.Chance(2, 3)
	p := &codecs.VP8Payloader{EnablePictureID: pidOn}
	n := r.Pick(3, 5, 130, 131, r.Range(3, 300))
	var fork *codecs.VP8Payloader
	var kpP, kpF keeper
	for k := 0; k < n; k++ {
		desc := 1
		if pidOn {
			desc = 3
			if k >= 128 {
				desc = 4
			}
		}
		mtu := r.Pick(desc+1, desc+2, desc+3, 10, 100, 1200, r.Range(desc+1, 60), r.Range(desc+1, 2000))
		if mtu <= desc {
			mtu = desc + 1
		}
		if r.Chance(1, 150) {
			mtu = r.Pick(32767, 32768, 32769, 40000, 65534, 65535) // the MTU is a uint16: values with bit 15 set are ordinary
		}
		fl := r.Pick(1, 2, mtu-desc-1, mtu-desc, mtu-desc+1, 2*(mtu-desc), 2*(mtu-desc)+1, r.Range(1, 4*mtu))
		if fl < 1 {
			fl = 1
		}
		if fl > 20000 && mtu < 32000 {
			fl = 20000
		}
		if fl > 140000 {
			fl = 140000
		}
		if (mtu >= 1000 && r.Chance(1, 40)) || (mtu >= 64 && r.Chance(1, 300)) || r.Chance(1, 8000) {
			fl = r.Pick(65535, 65536, 65537, 70000, 131073) // frames beyond 64 KiB are ordinary key frames
		}
		frame := r.Bytes(fl)
		if r.Chance(1, 3) {
			// frames that look like VP8 (frame tag, key-frame start code, partition size), with the first partition ending anywhere,
			// also exactly where a packet begins: the descriptor must not depend on what the frame says about itself
			boundary := -1
			if r.Bool() {
				boundary = r.Range(1, 3)*(mtu-desc) + r.Pick(0, 0, 0, -1, 1)
			}
			frame = gen.VP8Frame(r, fl, r.Chance(2, 3), boundary)
			c.Count("frames_shaped_like_vp8_bitstreams", 1)
		}
		if !c11Frame(c, p, &kpP, pidOn, k, mtu, frame, k == 0 || k == 127 || k == 128) {
			return
		}
		if fork != nil {
			// the copy taken earlier runs on as an instance of its own: same frame index, its own state
			if !c11Frame(c, fork, &kpF, pidOn, k, mtu, append([]byte(nil), frame...), false) {
				return
			}
		} else if k+1 < n && r.Chance(1, 40) {
			// the payloader is a plain struct: copied by value in mid-stream (a slice of payloaders that grows, a struct assignment)
			cp := *p
			fork = &cp
			c.Count("payloaders_copied_by_value_in_mid_stream", 1)
		}
	}
	if c.WantSample() {
		c.Sample(map[string]any{"picture_ids": pidOn, "frames_on_instance": n})
	}
}

func c11Long(c *fw.Ctx, i int) {
	r := c.R
	p := &codecs.VP8Payloader{EnablePictureID: true}
	n := 66000 // two wraps of the 15-bit picture id
	var kpL keeper
	for k := 0; k < n; k++ {
		mtu := 6
		fl := 1
		interesting := k < 3 || (k >= 126 && k <= 130) || (k >= 32766 && k <= 32770) || k >= 65534
		if interesting || r.Chance(1, 200) {
			mtu = r.Pick(5, 6, 7, 20)
			fl = r.Range(1, 30)
		}
		if !c11Frame(c, p, &kpL, true, k, mtu, r.Bytes(fl), interesting) {
			return
		}
	}
	c.Count("instances_crossing_128_and_the_15bit_wrap", 1)
	c.Sample(map[string]any{"picture_ids": true, "frames_on_instance": n, "crosses": "0, 127->128, 32767->0 twice"})
}

var c11Vals16 = []uint16{0, 1, 63, 127, 128, 0x3FFF, 0x7FFF}

func c11Dec(c *fw.Ctx, i int) {
	r := c.R
	// i enumerates: flag bits (10) x PID (4) x RSV (2) = 8192
	d := ref.VP8Desc{}
	f := i & 0x3FF
	d.X, d.R1, d.N, d.S, d.R2 = f&1 != 0, f&2 != 0, f&4 != 0, f&8 != 0, f&16 != 0
	d.I, d.L, d.T, d.K, d.M = f&32 != 0, f&64 != 0, f&128 != 0, f&256 != 0, f&512 != 0
	d.PID = []uint8{0, 1, 4, 7}[i>>10&3]
	d.RSV = []uint8{0, 15}[i>>12&1]
	// the read loop of a receiver: one VP8Packet, one receive buffer, IsPartitionHead asked before Unmarshal; every packet of the
	// loop has the same length (12 octets: descriptor plus filler), the S bit alternates with what the previous packet had
	var loopPkt codecs.VP8Packet
	loopBuf := make([]byte, 12)
	for draw := 0; draw < 8; draw++ {
		{
			ld := ref.VP8Desc{S: draw%2 == 0, PID: 0}
			if draw >= 2 {
				ld = d
				ld.S = !d.S == (draw%2 == 0)
			}
			le := ld.Encode()
			if len(le) <= len(loopBuf) {
				copy(loopBuf, le)
				for q := len(le); q < len(loopBuf); q++ {
					loopBuf[q] = byte(r.Intn(256))
				}
				var head bool
				var err error
				if pv, st := fw.Guard(func() { head = loopPkt.IsPartitionHead(loopBuf); _, err = loopPkt.Unmarshal(loopBuf) }); pv != nil {
					c.Fail("C11/decoder/panic/"+fw.PanicFunc(st), fmt.Sprintf("VP8Packet panicked in a read loop: %v", pv), fw.W("input", fw.Hex(loopBuf), "stack", st))
					return
				}
				if head != ld.S || err != nil || (loopPkt.S == 1) != ld.S {
					c.Fail("C11/ispartitionhead/read-loop-with-one-receive-buffer", fmt.Sprintf("one VP8Packet, one receive buffer: IsPartitionHead = %v, then Unmarshal err %v S = %d, the descriptor has S = %v", head, err, loopPkt.S, ld.S), fw.W("input", fw.Hex(loopBuf)))
					return
				}
				c.Count("read_loop_rounds", 1)
			}
		}
		d.PictureID = c11Vals16[r.Intn(len(c11Vals16))]
		if draw >= 6 {
			d.PictureID = uint16(r.Intn(0x8000))
		}
		if !d.M {
			d.PictureID &= 0x7F
		}
		d.TL0PICIDX = uint8(r.Pick(0, 1, 128, 255, r.Intn(256)))
		d.TID, d.Y, d.KEYIDX = uint8(r.Intn(4)), r.Bool(), uint8(r.Pick(0, 1, 16, 31, r.Intn(32)))
		if d.X && (d.L || d.T || d.K) {
			// one receiver, two packets whose descriptors agree in their first octets (flags, picture id) and differ only in
			// the octets behind them (TL0PICIDX, TID / Y / KEYIDX): the second decode shows the second packet's values
			d2 := d
			d2.TL0PICIDX ^= byte(r.Pick(1, 0x55, 0x80))
			d2.TID ^= 1
			d2.KEYIDX ^= byte(r.Pick(1, 16))
			d2.Y = !d.Y
			var rx codecs.VP8Packet
			var err1, err2 error
			if pv, st := fw.Guard(func() {
				_, err1 = rx.Unmarshal(fw.Exact(append(d.Encode(), 1, 2, 3)))
				_, err2 = rx.Unmarshal(fw.Exact(append(d2.Encode(), 1, 2, 3)))
			}); pv != nil {
				c.Fail("C11/decoder/panic/"+fw.PanicFunc(st), fmt.Sprintf("VP8Packet.Unmarshal panicked: %v", pv), fw.W("stack", st))
				return
			}
			bad := err1 != nil || err2 != nil
			if !bad && d.L && rx.TL0PICIDX != d2.TL0PICIDX {
				bad = true
			}
			if !bad && d.T && rx.TID != d2.TID {
				bad = true
			}
			if !bad && d.K && rx.KEYIDX != d2.KEYIDX {
				bad = true
			}
			if bad {
				c.Fail("C11/decoder/reused-receiver/second-of-two-similar-descriptors", fmt.Sprintf("one VP8Packet decoded two descriptors that differ only behind their fourth octet: it shows TL0PICIDX %d TID %d KEYIDX %d (errors %v %v), the second descriptor has %d %d %d",
					rx.TL0PICIDX, rx.TID, rx.KEYIDX, err1, err2, d2.TL0PICIDX, d2.TID, d2.KEYIDX), fw.W("first", fw.Hex(d.Encode()), "second", fw.Hex(d2.Encode())))
				return
			}
			c.Count("similar_descriptor_pairs_on_one_receiver", 1)
		}
		enc := d.Encode()
		if back, n, err := ref.VP8Parse(append(append([]byte{}, enc...), 0x55)); err != nil || n != len(enc) || back.Encode()[0] != enc[0] {
			c.HarnessBug("reference VP8 descriptor encoder/parser disagree on " + fw.Hex(enc))
			return
		}
		for _, plen := range []int{0, 1, 2, 8} {
			in := fw.Exact(append(append([]byte{}, enc...), r.Bytes(plen)...))
			pre := codecs.VP8Packet{X: 1, N: 1, S: 1, PID: 7, I: 1, L: 1, T: 1, K: 1, PictureID: 0x7ABC, TL0PICIDX: 0xEE, TID: 3, Y: 1, KEYIDX: 31}
			vp := codecs.VP8Packet{}
			if draw%2 == 1 {
				vp = pre // a receiver holding other values
			}
			var body []byte
			var err error
			if pv, st := fw.Guard(func() { body, err = vp.Unmarshal(in) }); pv != nil {
				c.Fail("C11/decoder/panic/"+fw.PanicFunc(st), fmt.Sprintf("VP8Packet.Unmarshal panicked: %v", pv), fw.W("input", fw.Hex(in), "stack", st))
				return
			}
			c.Evals(1)
			wit := fw.W("input", fw.Hex(in), "descriptor_len", len(enc), "payload_len", plen, "encoded", fmt.Sprintf("%+v", d))
			if err != nil {
				// a complete descriptor is not "cut short", whatever follows it (also nothing)
				c.Fail(fmt.Sprintf("C11/decoder/rejects-well-formed/payload-bytes-%d", minI(plen, 1)), "VP8Packet rejects a complete, well-formed descriptor: "+err.Error(), wit)
				return
			}
			{
				// the receiver's zero-allocation setting may trim what is stored, never what "the bytes that follow the descriptor" are
				var z codecs.VP8Packet
				z.SetZeroAllocation(true)
				var zb []byte
				var zerr error
				if pv, st := fw.Guard(func() { zb, zerr = z.Unmarshal(fw.Exact(in)) }); pv != nil {
					c.Fail("C11/decoder/panic/"+fw.PanicFunc(st), fmt.Sprintf("VP8Packet.Unmarshal (zero-allocation) panicked: %v", pv), fw.W("input", fw.Hex(in), "stack", st))
					return
				}
				if zerr != nil || !bytes.Equal(zb, in[len(enc):]) {
					c.Fail("C11/decoder/zero-allocation-receiver/payload-differs", fmt.Sprintf("a zero-allocation VP8Packet returns %d bytes (err %v), %d follow the descriptor", len(zb), zerr, plen), wit)
					return
				}
			}
			bad := ""
			b2u := func(b bool) uint8 {
				if b {
					return 1
				}
				return 0
			}
			switch {
			case vp.X != b2u(d.X):
				bad = "X"
			case vp.N != b2u(d.N):
				bad = "N"
			case vp.S != b2u(d.S):
				bad = "S"
			case vp.PID != d.PID:
				bad = "PID"
			case d.X && (vp.I != b2u(d.I) || vp.L != b2u(d.L) || vp.T != b2u(d.T) || vp.K != b2u(d.K)):
				bad = "ILTK"
			case !d.X && (vp.I|vp.L|vp.T|vp.K) != 0:
				bad = "ILTK-without-X"
			case d.X && d.I && vp.PictureID != d.PictureID:
				bad = "PictureID"
			case d.X && d.L && vp.TL0PICIDX != d.TL0PICIDX:
				bad = "TL0PICIDX"
			case d.X && d.T && (vp.TID != d.TID || vp.Y != b2u(d.Y)):
				bad = "TID/Y"
			case d.X && d.K && vp.KEYIDX != d.KEYIDX:
				bad = "KEYIDX"
			// RFC 7741: TID/Y are ignored when T = 0 and KEYIDX when K = 0 even if the shared octet is present;
			// the decoder reports such fields as zero, never the ignored bits of the octet
			case d.X && !d.T && (vp.TID != 0 || vp.Y != 0):
				bad = "TID/Y-reported-although-T-is-0"
			case d.X && !d.K && vp.KEYIDX != 0:
				bad = "KEYIDX-reported-although-K-is-0"
			// fields that are not on the wire at all decode as zero (also into a receiver that held other values)
			case !(d.X && d.I) && vp.PictureID != 0:
				bad = "PictureID-reported-although-I-is-0"
			case !(d.X && d.L) && vp.TL0PICIDX != 0:
				bad = "TL0PICIDX-reported-although-L-is-0"
			case !(d.X && (d.T || d.K)) && (vp.TID != 0 || vp.Y != 0 || vp.KEYIDX != 0):
				bad = "TID/Y/KEYIDX-reported-although-absent"
			}
			if bad != "" {
				c.Fail("C11/decoder/field-differs/"+bad, "VP8Packet decodes field "+bad+" differently from the encoded value", fw.W("input", fw.Hex(in), "encoded", fmt.Sprintf("%+v", d), "decoded", fmt.Sprintf("%+v", vp)))
				return
			}
			if !bytes.Equal(body, in[len(enc):]) || !bytes.Equal(vp.Payload, in[len(enc):]) {
				c.Fail("C11/decoder/payload-differs", fmt.Sprintf("returned %d bytes, %d follow the descriptor", len(body), plen), wit)
				return
			}
			// IsPartitionHead is the S bit of the first octet, whatever the other bits are
			if head := (&codecs.VP8Packet{}).IsPartitionHead(in); head != d.S {
				c.Fail("C11/ispartitionhead/differs-from-s-bit", fmt.Sprintf("IsPartitionHead = %v for a descriptor with S=%v (first octet %#02x)", head, d.S, in[0]), wit)
				return
			}
			c.Count("descriptors_decoded_exactly", 1)
		}
		// every truncation strictly inside the descriptor must be rejected
		for cut := 0; cut < len(enc); cut++ {
			var vp codecs.VP8Packet
			var err error
			in := fw.Exact(enc[:cut])
			if pv, st := fw.Guard(func() { _, err = vp.Unmarshal(in) }); pv != nil {
				c.Fail("C11/decoder/panic/"+fw.PanicFunc(st), fmt.Sprintf("VP8Packet.Unmarshal panicked on a truncated descriptor: %v", pv), fw.W("input", fw.Hex(in), "stack", st))
				return
			}
			c.Evals(1)
			if err == nil {
				c.Fail("C11/decoder/accepts-truncated-descriptor", fmt.Sprintf("a descriptor of %d bytes cut to %d bytes is accepted", len(enc), cut), fw.W("input", fw.Hex(in), "full_descriptor", fw.Hex(enc)))
				return
			}
		}
	}
	if d.X {
		c.Shapef("dec|%03x", f)
	}
	if i == 0x3FF {
		c.Sample(map[string]any{"flags": "all set", "example_descriptor": fw.Hex(d.Encode())})
	}
}
