#!/usr/bin/env python3
"""Writes /verif/seeded/<name>/meta.json from the table below plus the last recorded run (seeded/<name>/last_run.txt)."""
import json, os, re
V = os.path.dirname(os.path.dirname(os.path.abspath(__file__)))
NEEDS = {}
exec(open(os.path.join(V, "tools", "seeded_table.py")).read())
for name in sorted(os.listdir(V + "/seeded")):
    d = os.path.join(V, "seeded", name)
    if not os.path.isdir(d): continue
    prop = name.split("-")[0]
    props = open(d + "/props").read().split() if os.path.exists(d + "/props") else [prop]
    last = open(d + "/last_run.txt").read() if os.path.exists(d + "/last_run.txt") else ""
    caught = sorted(set(re.findall(r"== (C\d+) exit=1", last)))
    sigs = re.findall(r"signature=(\S+)", last)[:4]
    meta = {
        "name": name,
        "breaks_property": prop,
        "origin": NEEDS.get(name, {}).get("origin", "independent sub-agent given only the property text and a scratch worktree"),
        "what_it_changes": NEEDS.get(name, {}).get("what", "see README.md"),
        "needs_to_manifest": NEEDS.get(name, {}).get("needs", "see README.md"),
        "confirmed": "tools/confirm_mut.sh: patch applies to /repo HEAD in a scratch worktree; go build, go vet, go test ./... pass with it; demo_test.go (copied into '%s') fails with the patch and passes without" % (open(d + "/demo_target_dir").read().strip() if os.path.exists(d + "/demo_target_dir") else "."),
        "checks_run": ["./check %s quick (with the patch applied to /repo via tools/trymut.sh, undone afterwards)" % p for p in props],
        "caught_by": caught,
        "first_signatures": sigs,
        "status": "caught" if caught else ("not run yet" if not last else ("not reported - argued to lie outside the property's domain (see needs_to_manifest); the checks are silent by design" if "by design" in NEEDS.get(name, {}).get("needs", "") else "MISSED")),
    }
    json.dump(meta, open(d + "/meta.json", "w"), indent=1)
    print(name, meta["status"], caught)
