#!/usr/bin/env python3
"""Mutation screening: enumerates small syntactic mutants of pion/rtp (cmd/mutgen), drops those that do not compile or that the
library's own tests kill, and runs the owning monitors (scaled-down quick tier, plain build) on the survivors.
A mutant no monitor reports is either equivalent or a blind spot; results go to /verif/mutscreen/.

  tools/mutscreen.py [-j 14] [--scale 0.15] [--files packet.go,codecs/vp8_packet.go] [--limit N]
"""
import argparse, json, os, shutil, subprocess, sys, time
from multiprocessing import Pool

V = "/verif"; REPO = "/repo"; TMP = "/tmp/mw"; H = TMP + "/harness"; PRISTINE = TMP + "/pristine"  # snapshots taken at start: the run is immune to later edits of /repo and /verif/harness
ENV = dict(os.environ, GOFLAGS="-mod=mod", GOPROXY="off", GOSUMDB="off", GOTOOLCHAIN="local")
FILEMAP = {
 "packet.go": ["C01", "C03", "C02", "C05", "C04", "C20", "C06"],
 "header_extension.go": ["C03"],
 "packetizer.go": ["C06"],
 "sequencer.go": ["C07", "C06"],
 "abssendtimeextension.go": ["C18", "C17", "C06"],
 "abscapturetimeextension.go": ["C18", "C17"],
 "audiolevelextension.go": ["C17"], "transportccextension.go": ["C17"], "playoutdelayextension.go": ["C17"],
 "vlaextension.go": ["C19"],
 "codecs/common.go": ["C16", "C09", "C08"], "codecs/g711_packet.go": ["C16", "C08"], "codecs/g722_packet.go": ["C16", "C08"], "codecs/opus_packet.go": ["C16", "C09", "C08"],
 "codecs/h264_packet.go": ["C10", "C15", "C09", "C08", "C14"],
 "codecs/h265_packet.go": ["C14", "C09", "C08"],
 "codecs/vp8_packet.go": ["C11", "C09", "C08"],
 "codecs/vp9_packet.go": ["C12", "C09", "C08"], "codecs/vp9/header.go": ["C12"], "codecs/vp9/bits.go": ["C12"],
 "codecs/av1_packet.go": ["C13", "C09", "C08", "C15"], "codecs/av1_depacketizer.go": ["C13", "C15", "C09"],
 "codecs/av1/obu/leb128.go": ["C13", "C19", "C09"], "codecs/av1/obu/obu.go": ["C13", "C09"], "codecs/av1/frame/av1.go": ["C13", "C09"],
}
KNOWN_OPEN = {f["signature"] for f in json.load(open(V + "/known_findings.json"))["findings"] if f["status"] == "open"}

def sh(cmd, cwd, timeout, env=ENV):
    try:
        p = subprocess.run(cmd, cwd=cwd, env=env, stdout=subprocess.PIPE, stderr=subprocess.STDOUT, timeout=timeout)
        return p.returncode, p.stdout.decode(errors="replace")
    except subprocess.TimeoutExpired:
        return 124, "timeout"

def setup(k):
    w = f"{TMP}/{k}"
    if os.path.isdir(w): shutil.rmtree(w)
    os.makedirs(w)
    subprocess.run(["rsync", "-a", PRISTINE + "/", w + "/repo/"], check=True)
    mod = open(H + "/go.mod").read().replace("=> /repo", f"=> {w}/repo")
    open(w + "/go.mod", "w").write(mod)
    shutil.copy(H + "/go.sum", w + "/go.sum")
    return w

def work(job):
    k, rel, mid, entry, mfile, scale = job
    w = f"{TMP}/{k}"
    if not os.path.isdir(w + "/repo"): setup(k)
    target = f"{w}/repo/{rel}"
    orig = open(f"{PRISTINE}/{rel}", "rb").read()
    res = dict(file=rel, id=mid, line=entry["line"], func=entry["func"], desc=entry["desc"])
    try:
        shutil.copy(mfile, target)
        rc, out = sh(["go", "build", "./..."], w + "/repo", 120)
        if rc: res["status"] = "nocompile"; return res
        rc, out = sh(["go", "test", "-count=1", "-timeout", "120s", "./..."], w + "/repo", 200)
        if rc: res["status"] = "killed-by-unit-tests"; return res
        rc, out = sh(["go", "build", f"-modfile={w}/go.mod", "-tags", "verif", "-o", f"{w}/rtpmon", "./cmd/rtpmon"], H, 300)
        if rc:
            rc, out = sh(["go", "build", f"-modfile={w}/go.mod", "-o", f"{w}/rtpmon", "./cmd/rtpmon"], H, 300)
            if rc: res["status"] = "harness-nobuild"; res["log"] = out[-400:]; return res
        bins = {False: f"{w}/rtpmon"}
        props = FILEMAP[rel]
        if rel == "sequencer.go":
            rc, out = sh(["go", "build", "-race", f"-modfile={w}/go.mod", "-tags", "verif", "-o", f"{w}/rtpmon-race", "./cmd/rtpmon"], H, 600)
            if rc == 0: bins[True] = f"{w}/rtpmon-race"
        env = dict(ENV, VERIF_SCALE=str(scale), GORACE=f"halt_on_error=0 exitcode=0 log_path={w}/racelog")
        for p in props:
            for race, b in bins.items():
                if race and p != "C07": continue
                outf = f"{w}/res.json"
                if os.path.exists(outf): os.remove(outf)
                for f in os.listdir(w):
                    if f.startswith("racelog"): os.remove(f"{w}/{f}")
                rc, out = sh([b, "child", "-prop", p, "-tier", "quick", "-seed", "1", "-out", outf, "-pin", f"{w}/pin", "-workers", "2"], w, 900, env)
                if rc != 0 or not os.path.exists(outf):
                    res["status"] = "caught"; res["by"] = p; res["sig"] = "child died / did not return (exit %d)" % rc; return res
                r = json.load(open(outf))
                sigs = [s for s in (r.get("violations") or {}) if s not in KNOWN_OPEN]
                if sigs:
                    res["status"] = "caught"; res["by"] = p; res["sig"] = sigs[0]; return res
                if r.get("harness"):
                    res["status"] = "caught"; res["by"] = p; res["sig"] = "harness self-check tripped: " + r["harness"][0][:120]; return res
                if race and any(f.startswith("racelog") for f in os.listdir(w)):
                    res["status"] = "caught"; res["by"] = p; res["sig"] = "race detector report"; return res
        res["status"] = "SURVIVED"
        return res
    finally:
        open(target, "wb").write(orig)

def main():
    ap = argparse.ArgumentParser()
    ap.add_argument("-j", type=int, default=14); ap.add_argument("--scale", type=float, default=0.15)
    ap.add_argument("--files", default=""); ap.add_argument("--limit", type=int, default=0); ap.add_argument("--out", default=V + "/mutscreen/results.jsonl")
    ap.add_argument("--set", type=int, default=1, help="mutgen operator set")
    ap.add_argument("--rerun-survivors", default="", help="results.jsonl of an earlier run: only its SURVIVED mutants are run again (e.g. at --scale 1.0)")
    a = ap.parse_args()
    files = [f for f in a.files.split(",") if f] or list(FILEMAP)
    only = None
    if a.rerun_survivors:
        only = {(r["file"], r["id"]) for r in map(json.loads, open(a.rerun_survivors)) if r["status"] == "SURVIVED" and not (r["file"] == "header_extension.go" and (r["func"].endswith(".Set") or r["func"].endswith(".Del")))}
        files = sorted({f for f, _ in only})
    shutil.rmtree(TMP, ignore_errors=True)
    os.makedirs(TMP, exist_ok=True); os.makedirs(os.path.dirname(a.out), exist_ok=True)
    subprocess.run(["git", "-C", REPO, "diff", "--quiet"], check=True)  # refuse to snapshot a modified tree
    subprocess.run(["rsync", "-a", "--exclude", ".git", REPO + "/", PRISTINE + "/"], check=True)
    subprocess.run(["rsync", "-a", V + "/harness/", H + "/"], check=True)
    rc, out = sh(["go", "build", "-o", TMP + "/mutgen", "./cmd/mutgen"], H, 300)
    if rc: print(out); sys.exit(1)
    jobs = []
    for rel in files:
        d = f"{TMP}/mutants/{rel}.d"
        if os.path.isdir(d): shutil.rmtree(d)
        subprocess.run([TMP + "/mutgen", "-set", str(a.set), "-file", f"{PRISTINE}/{rel}", "-out", d], check=True)
        idx = json.load(open(d + "/index.json")) or []
        if a.limit: idx = idx[:a.limit]
        for e in idx:
            if only is not None and (rel, e["id"]) not in only: continue
            jobs.append([0, rel, e["id"], e, f"{d}/{e['id']:04d}.go", a.scale])
    for i, j in enumerate(jobs): j[0] = i % a.j
    # one worker directory per pool slot: jobs with the same k must not run concurrently -> chunk by k
    for k in range(a.j): setup(k)
    t0 = time.time()
    byk = [[j for j in jobs if j[0] == k] for k in range(a.j)]
    with Pool(a.j) as pool:
        results = pool.map(run_chunk, byk)
    flat = [r for chunk in results for r in chunk]
    with open(a.out, "a") as f:
        for r in flat: f.write(json.dumps(r) + "\n")
    from collections import Counter
    c = Counter(r["status"] for r in flat)
    print(dict(c), "in %.0fs" % (time.time() - t0))
    for r in flat:
        if r["status"] in ("SURVIVED", "harness-nobuild"): print(r["status"], r["file"], "line", r["line"], r["func"], "::", r["desc"])
    shutil.rmtree(TMP, ignore_errors=True)

def run_chunk(chunk):
    out = []
    for j in chunk:
        try: out.append(work(tuple(j)))
        except Exception as e: out.append(dict(file=j[1], id=j[2], status="error", err=str(e)[:200], line=j[3]["line"], func=j[3]["func"], desc=j[3]["desc"]))
    return out

if __name__ == "__main__": main()
