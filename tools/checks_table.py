# Table of claimed checks; executed by mkmanifest.py.
NOTES = ("Runtime monitoring only: every verdict is an oracle observing executions of the real code. Exit 0 = held on what was observed, "
         "exit 1 + VIOLATION line = refuted with replay file, exit 2 + INCONCLUSIVE line = nothing can be said (never folded into the others). "
         "Known findings: /verif/known_findings.json.")
HOOK_COMMITS = []

add("C01", "exploration",
    "runtime monitor: encode/decode round-trip oracle over generated well-formed packets (class cross product + seeded fill), recover()-guarded",
    "Held on the generated Packet/Header values (60k quick / 6M thorough, every class combination of CSRC x extension kind x payload x padding); says nothing about values the generator does not produce.",
    "Trusts the harness generator/bridge (public API only) and its equality convention (nil == empty; ExtensionProfile ignored without X).")
