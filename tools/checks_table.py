# Table of claimed checks; executed by mkmanifest.py.
NOTES = ("Runtime monitoring only: every verdict is an oracle observing executions of the real code. Exit 0 = held on what was observed, "
         "exit 1 + VIOLATION line = refuted with replay file, exit 2 + INCONCLUSIVE line = nothing can be said (never folded into the others). "
         "Known findings: /verif/known_findings.json.")
HOOK_COMMITS = []

add("C01", "exploration",
    "runtime monitor: encode/decode round-trip oracle over generated well-formed packets (class cross product + seeded fill), recover()-guarded",
    "Held on the generated Packet/Header values (60k quick / 6M thorough, every class combination of CSRC x extension kind x payload x padding); says nothing about values the generator does not produce.",
    "Trusts the harness generator/bridge (public API only) and its equality convention (nil == empty; ExtensionProfile ignored without X).")

add("C02", "exploration",
    "runtime monitor: recover() guard + structural invariants of accepted parses + fresh-vs-reused receiver twin over hostile byte-string streams (exhaustive <=2 bytes, alphabet walk, mutants)",
    "Held on every byte string fed (all strings <=2 bytes and the extension-region alphabet walk exhaustively; ~400k quick / 40M thorough generated strings in streams through persistent receivers).",
    "Non-termination is only detectable through the process watchdog + pinboard; inputs are generated, not enumerated beyond the exhaustive strata.")
add("C03", "exploration",
    "runtime monitor: differential against an independent RFC 3550/8285 reference encoder/decoder (grammar images incl. non-canonical layouts), re-encode stability oracle on accepted mutants, block-view oracle",
    "Held on the grammar images generated (100k quick / 8M thorough) and on every accepted mutant; one open known finding (id-15 terminator, pinned by an existing test).",
    "Trusts the reference encoder/decoder pair (cross-checked against each other on every case).")
add("C04", "exploration",
    "runtime monitor: MarshalTo judged against Marshal() on dirty destination buffers of every length 0..size+8, recover()-guarded",
    "Held on all generated packets/headers x every destination length x four prior contents (1.3M calls quick).",
    "Marshal() is the byte reference; nothing is demanded of dst after a failed call.")
add("C05", "exploration",
    "runtime monitor: shadow ordered-map model following returned errors + wire clause; all op sequences of length <=2 over the class alphabet exhaustively, random longer ones",
    "Held on every sequence of <=2 operations over the boundary alphabet x 11 start states and on 120k/12M random sequences.",
    "The model never predicts failures, it follows returned errors; ids/lengths outside the class alphabet are sampled.")
add("C20", "exploration",
    "runtime monitor: twin (mutate one side, watch the other's snapshot) + address-range overlap monitor over full slice capacity",
    "Held on 30k/3M generated packets and headers under 12 mutation kinds in both directions.",
    "Extension values are reached through GetExtension only; snapshots are fields + Marshal bytes.")
