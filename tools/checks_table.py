# Table of claimed checks; executed by mkmanifest.py.
NOTES = ("Runtime monitoring only: every verdict is an oracle observing executions of the real code. Exit 0 = held on what was observed, "
         "exit 1 + VIOLATION line = refuted with replay file, exit 2 + INCONCLUSIVE line = nothing can be said (never folded into the others). "
         "Known findings: /verif/known_findings.json.")
HOOK_COMMITS = ["f9ac6f7"]

add("C01", "exploration",
    "runtime monitor: encode/decode round-trip oracle over generated well-formed packets (class cross product + seeded fill), recover()-guarded",
    "Held on the generated Packet/Header values (60k quick / 6M thorough, every class combination of CSRC x extension kind x payload x padding); says nothing about values the generator does not produce.",
    "Trusts the harness generator/bridge (public API only) and its equality convention (nil == empty; ExtensionProfile ignored without X).")

add("C02", "exploration",
    "runtime monitor: recover() guard + structural invariants of accepted parses + fresh-vs-reused receiver twin over hostile byte-string streams (exhaustive <=2 bytes, alphabet walk, mutants)",
    "Held on every byte string fed (all strings <=2 bytes and the extension-region alphabet walk exhaustively; ~400k quick / 40M thorough generated strings in streams through persistent receivers).",
    "Non-termination is only detectable through the process watchdog + pinboard; inputs are generated, not enumerated beyond the exhaustive strata.")
add("C03", "exploration",
    "runtime monitor: differential against an independent RFC 3550/8285 reference encoder/decoder (grammar images incl. non-canonical layouts), re-encode stability oracle on accepted mutants, block-view oracle",
    "Held on the grammar images generated (100k quick / 8M thorough) and on every accepted mutant; one open known finding (id-15 terminator, pinned by an existing test).",
    "Trusts the reference encoder/decoder pair (cross-checked against each other on every case).")
add("C04", "exploration",
    "runtime monitor: MarshalTo judged against Marshal() on dirty destination buffers of every length 0..size+8, recover()-guarded",
    "Held on all generated packets/headers x every destination length x four prior contents (1.3M calls quick).",
    "Marshal() is the byte reference; nothing is demanded of dst after a failed call.")
add("C05", "exploration",
    "runtime monitor: shadow ordered-map model following returned errors + wire clause; all op sequences of length <=2 over the class alphabet exhaustively, random longer ones",
    "Held on every sequence of <=2 operations over the boundary alphabet x 11 start states and on 120k/12M random sequences.",
    "The model never predicts failures, it follows returned errors; ids/lengths outside the class alphabet are sampled.")
add("C20", "exploration",
    "runtime monitor: twin (mutate one side, watch the other's snapshot) + address-range overlap monitor over full slice capacity",
    "Held on 30k/3M generated packets and headers under 12 mutation kinds in both directions.",
    "Extension values are reached through GetExtension only; snapshots are fields + Marshal bytes.")

add("C16", "exploration",
    "runtime monitor: concatenation / fragment-size oracle over the exhaustive (length 0-320) x (MTU 1-320) grid plus MTU-multiple boundaries; overlap + scribble monitor for Opus",
    "Held on the complete 321x320 grid for both payloaders, on k*MTU-1..k*MTU+1 for nine MTUs up to 10 000 bytes, and on Opus lengths 0-320 + nil.",
    "Input bytes are random; the split is value-independent in the code observed.")
add("C17", "exploration",
    "runtime monitor: exhaustive execution of the value domains (2x256, 2^16, 2^24, 2^24) against bit layouts from the specifications; pre-loaded receiver twin; every input length 0..size+2",
    "Every value of AudioLevel, TransportCC, PlayoutDelay and AbsSendTime was executed; AbsCaptureTime 2^20 (quick) / 2^24 (thorough) seeded 64-bit values x 3 receiver histories.",
    "Layouts restated in the monitor from RFC 6464 / the WebRTC extension documents.")
add("C18", "exploration",
    "runtime monitor: integer-nanosecond reference bounds over boundary-concentrated (instant, offset, delay) triples",
    "Held on ~2M (quick) / 200M (thorough) triples concentrated at 64 s wraps, whole seconds, era end, offset extremes and delays just below 64 s.",
    "Send and receive instants both before the NTP era end; 1 ns conversion slack.")
add("C19", "exploration",
    "runtime monitor: differential against an independent video-layers-allocation00 encoder/decoder over all slot subsets; fresh-vs-used receiver twin; recover()-guarded decoder fuzz",
    "Thorough executes all 69 900 slot subsets x resolution flag; quick all subsets for <=2 streams plus 20 000 sampled.",
    "Reference encoder/decoder cross-checked on every case; empty allocation only panic-checked.")

add("C07", "exploration",
    "Go race detector + client-boundary history recording checked offline by porcupine (linearizability against a sequential (last, rollovers) model) and by an O(n log n) unique-value real-time-order checker; exhaustive sequential pass over all 65 536 start values",
    "All 65 536 start values sequentially; 10k (quick) / 200k (thorough) short concurrent histories with the wrap inside and 3 / 100 long histories, all on the race-instrumented build with injected yields (client side and at an in-method hook).",
    "Only schedules the Go scheduler produced were observed; a race-free non-atomic change is found probabilistically (the evidence counts overlapping operations and distinct issue orders).")

add("C06", "exploration",
    "runtime monitor: shadow model of the packet train fed by a recording payloader wrapper; injected-clock reference for abs-send-time (hook) or bracketing; Marshal/Unmarshal oracle; race detector + gap-free check on a shared sequencer",
    "Held on 40k (quick) / 3M (thorough) operation sequences over ten payloaders, boundary MTUs, wrap-adjacent sequencers and adversarial clock instants; 300 / 20k shared-sequencer runs on the race build.",
    "Fragments are what the wrapped payloader returned; padding packets' timestamp and size-vs-MTU are not judged (the property does not fix them).")

add("C10", "exploration",
    "runtime monitor: differential against an independent RFC 6184 reassembler (payloader side) and an independent RFC 6184 encoder (depacketizer side); expected Annex-B/AVC framing; IsPartitionHead vs first-payload-of-unit",
    "Held on 60k/6M access-unit sequences x MTU 3.. x StapA x AVC and 40k/4M independently encoded streams (single, STAP-A, FU-A with empty fragments).",
    "NAL bodies without start-code emulation; parameter sets only as adjacent SPS,PPS pairs followed by an emitted unit.")
add("C13", "exploration",
    "runtime monitor: differential against an independent AV1 RTP aggregation parser/reassembler, three-way OBU comparison (reference, AV1Depacketizer, AV1Packet+frame assembler); exhaustive LEB128 and OBU-header strata",
    "Held on 80k/8M OBU sequences x MTU 2..; LEB128 on every v<2^17, boundary windows and a 2^20-point stride; all 2^16 OBU header byte pairs.",
    "N bit not judged; layer of an OBU whose extension byte falls into the next packet is not attributed.")
add("C15", "fault_enumeration",
    "runtime monitor with fault enumeration: every delivery subset (2^n for n<=10) of an earlier frame, garbage and second lossy frames as history, twin against a fresh receiver on the following intact frame",
    "All 2^n loss subsets for trains of up to 10 packets over 2.5k/250k frame pairs per codec (about 1M / 100M injected loss patterns).",
    "In-order delivery; the later frame is complete; H264 trains from the independent encoder, AV1 trains from the library payloader.")

add("C08", "exploration",
    "runtime monitor: recover() guard, MTU bound, input-immutability compare, address-range overlap monitor (fragments + hooked retained state vs all caller buffers), scribble twin across calls, Go race detector tripwire",
    "Every payloader/option x every MTU 0-16 and 60k/6M instance runs of 1-4 calls over hostile, seeded and valid inputs; 2.5k/250k race-build tripwire runs.",
    "VP9 with nil InitialPictureIDFn is random by design (no twin compare); the race tripwire is secondary to the overlap and twin monitors.")
add("C09", "exploration",
    "runtime monitor: recover() guard, fresh-vs-reused receiver twin (result, error-ness, metadata), scribble twin + address-range overlap monitor on hooked retained state, exhaustive short strings",
    "Every byte string of length <=2 (thorough <=3) through 21 persistent receivers; 90k/9M hostile sequences of 1-20 payloads; race-build tripwire on the stateful receivers.",
    "Metadata = exported fields / accessor values; compared when the fresh decode succeeds.")
add("C11", "exploration",
    "runtime monitor: concatenation oracle + shadow picture-id counter (33 000-frame instance runs across 128 and the 15-bit wrap) + independent RFC 7741 descriptor parser/encoder; exhaustive flag space for the decoder",
    "All 2^10 flag combinations x PID x RSV with boundary field values and every truncation; 8k/800k short and 8/200 long instance runs.",
    "Absent fields are not compared; a complete descriptor with zero payload bytes may be rejected.")
add("C12", "exploration",
    "runtime monitor: independent VP9 uncompressed-header bit-writer and RFC 9628 descriptor encoder/parser; concatenation oracle; shadow picture-id counter",
    "30k/3M payloader instances, 60k/6M headers (each with every prefix), 120k/12M descriptors (each with every truncation).",
    "Width 65536 excluded from the SS clause; show-existing frames judged for losslessness/B/E/id only.")
add("C14", "exploration",
    "runtime monitor: differential against an independent RFC 7798 parser/reassembler and encoder; exhaustive 2^16 payload headers, 2^8 FU headers, 2^16 PACI words, 2^24 TSCI triples (2^18 sampled in quick)",
    "60k/6M unit sequences and 60k/6M independently encoded payloads with every truncation; one open known finding (DONL in every FU, pinned by an existing test).",
    "DONL/DOND values are not judged, only placement; truncation judged inside the mandatory part.")
