# Table of claimed checks; executed by mkmanifest.py.
NOTES = ("Runtime monitoring only: every verdict is an oracle observing executions of the real code built from /repo's working tree. Exit 0 = held on what was observed, "
         "exit 1 + VIOLATION line = refuted with replay file, exit 2 + INCONCLUSIVE line = nothing can be said (never folded into the others). "
         "Known findings: /verif/known_findings.json (3 open: two pinned by existing tests, one whose repair is not small and safe; the fix: commits are listed as fixed and suppress nothing). "
         "Validation of the monitors: 321 independent seeded changes in /verif/seeded (tools/runseeded.sh), every fix reversed (tools/regress.sh), behaviour-preserving refactors in "
         "/verif/neutral (tools/runneutral.sh), syntactic mutation screening (tools/mutscreen.py, mutscreen/SUMMARY.md). Thorough tier adds a coverage-based reach audit to the evidence.")
HOOK_COMMITS = ["f9ac6f7", "155194a"]

add("C01", "exploration",
    "runtime monitor: encode/decode round-trip oracle over generated well-formed packets (class cross product + seeded fill), recover()-guarded, independent RFC decoder as diagnostic",
    "Held on 3M (quick) / 24M (thorough) generated Packet/Header values: every class combination of CSRC x extension kind x payload x padding, incl. blocks and payloads beyond 64 KiB.",
    "Trusts the harness generator/bridge (public API only) and its equality convention (nil == empty; ExtensionProfile ignored without X).")
add("C02", "exploration",
    "runtime monitor: recover() guard + structural invariants of accepted parses + fresh-vs-reused receiver twin (fields, len(Extensions), wire image after a follow-up SetExtension), read-loop receiver on one receive buffer, write-protected inputs (mprotect; a store faults and is reported) over hostile byte-string streams",
    "All strings <= 2 bytes, the extension-region alphabet walk and every value of the first two octets x boundary lengths exhaustively; 100k/2.5M streams of 8-32 hostile inputs through persistent receivers; inputs with exact and spare (canary) capacity.",
    "Non-termination is only detectable through the process watchdog + pinboard; beyond the exhaustive strata inputs are generated.")
add("C03", "exploration",
    "runtime monitor: differential against an independent RFC 3550/8285 reference encoder/decoder (grammar images incl. non-canonical layouts), re-encode stability oracle on accepted mutants, block-view oracle",
    "Held on 1.5M/15M grammar images, 2.5M/25M mutants (every accepted one re-encoded), 0.9M/9M standalone block views; one open known finding (id-15 terminator, pinned by an existing test).",
    "Trusts the reference encoder/decoder pair (cross-checked against each other on every case).")
add("C04", "exploration",
    "runtime monitor: MarshalTo judged against Marshal() on dirty destination buffers of every length 0..size+8 (also nil, also windows with spare capacity guarded by a canary), recover()-guarded",
    "140k/1.4M packets and headers x every destination length x four prior contents (about 27M calls quick).",
    "Marshal() is the byte reference; nothing is demanded of dst after a failed call.")
add("C05", "exploration",
    "runtime monitor: shadow ordered-map model following returned errors + wire clause; all op sequences of length <=2 (thorough: 3) over the class alphabet exhaustively, random longer ones incl. values that share storage",
    "Every sequence of <=2 (thorough <=3) operations over the boundary alphabet x 11 start states; 2M/20M random sequences.",
    "The model never predicts failures, it follows returned errors; a successful DelExtension may change nothing but the element list.")
add("C06", "exploration",
    "runtime monitor: shadow model of the packet train fed by a recording payloader wrapper (12 payloaders incl. silent and odd-shaped ones); injected-clock reference for abs-send-time; Marshal/Unmarshal oracle; history re-check of earlier packets; race detector + gap-free check on a shared sequencer",
    "200k/5M operation sequences over boundary MTUs, wrap-adjacent sequencers, sample counts around 2^32 and adversarial clock instants; 1k/30k shared-sequencer runs on the race build.",
    "Fragments are what the wrapped payloader returned; padding packets' timestamp and size-vs-MTU are not judged (the property does not fix them).")
add("C07", "exploration",
    "Go race detector + client-boundary history recording checked offline by porcupine (linearizability against a sequential (last, rollovers) model) and by an O(n log n) unique-value real-time-order checker; exhaustive sequential pass over all 65 536 start values; rollover-count walks at 2^8..2^64 completed rollovers (state hook) and a black-box walk of 2^32 + 2^18 values",
    "All 65 536 start values; the rollover count followed across every power-of-two magnitude (hook; thorough and hook-less builds also draw 2^32 values from one sequencer); 10k/200k short concurrent histories with the wrap inside and 3/100 long histories and 8000/120 000 wrap storms (client-local oracle, polling readers) on the race-instrumented build with injected yields (client side and at an in-method hook); 800k/8M random sequencers.",
    "Only schedules the Go scheduler produced were observed; a race-free non-atomic change is found probabilistically (the evidence counts overlapping operations and distinct issue orders).")
add("C08", "exploration",
    "runtime monitor: recover() guard, MTU bound, input immutability (within len, in spare capacity, and write-protected inputs whose stores fault), address-range overlap monitor (fragments vs caller buffers, fragments vs each other, hooked retained state), scribble twin across calls, interleaved unrelated instance, Go race detector tripwire",
    "Every payloader/option x every MTU 0-16; 300k/8M instance runs of 1-4 calls (MTU may change between calls) over hostile, seeded and valid inputs incl. > 65535 fragments and LEB128-boundary packing; 6k/300k race-build tripwire runs.",
    "VP9 with nil InitialPictureIDFn is random by design (no twin compare); the race tripwire is secondary to the overlap and twin monitors.")
add("C09", "exploration",
    "runtime monitor: recover() guard, fresh-vs-reused receiver twin (result, error-ness, metadata, also after IsPartitionHead/Tail calls about other payloads), scribble twin + address-range overlap monitor on hooked retained state, interleaved unrelated receiver, options flipped in mid-stream, write-protected inputs, exhaustive short strings",
    "Every byte string of length <=2 (thorough <=3) through 21 persistent receivers; 400k/10M hostile sequences of 1-20 payloads incl. payloads beyond 64 KiB; race-build tripwire on the stateful receivers.",
    "Metadata = exported fields / accessor values; compared when the fresh decode succeeds.")
add("C10", "exploration",
    "runtime monitor: differential against an independent RFC 6184 reassembler (payloader side) and an independent RFC 6184 encoder (depacketizer side); expected Annex-B/AVC framing; IsPartitionHead vs first-payload-of-unit",
    "300k/8M access-unit sequences x MTU 3.. x StapA x AVC (units up to 131 073 bytes, STAP-A next to the MTU, last-fragment remainders 0-2) and 200k/6M independently encoded streams (single incl. one-byte NALs, STAP-A, FU-A with empty fragments).",
    "NAL content follows the start-code emulation rule (no 00 00 0x) and does not end in 00; parameter sets only as adjacent SPS,PPS pairs followed by an emitted unit.")
add("C11", "exploration",
    "runtime monitor: concatenation oracle + shadow picture-id counter (66 000-frame instance runs across 128 and two 15-bit wraps) + independent RFC 7741 descriptor parser/encoder; exhaustive flag space for the decoder",
    "All 2^10 flag combinations x PID x RSV with boundary field values, every truncation, IsPartitionHead == S; 40k/1M short and 16/300 long instance runs; frames beyond 64 KiB; a third of the frames shaped like VP8 bitstreams (frame tag, start code, first-partition size at packet boundaries).",
    "Fields whose presence flag is clear must read as zero; a complete descriptor is accepted whatever follows it.")
add("C12", "exploration",
    "runtime monitor: independent VP9 uncompressed-header bit-writer and RFC 9628 descriptor encoder/parser; concatenation oracle; shadow picture-id counter (70 000-frame runs)",
    "150k/4M payloader instances, 300k/8M headers (each with every prefix), 600k/15M descriptors (each with every truncation, IsPartitionHead == B).",
    "Width 65536 excluded from the SS clause; show-existing frames judged for losslessness/B/E/id only.")
add("C13", "exploration",
    "runtime monitor: differential against an independent AV1 RTP aggregation parser/reassembler, three-way OBU comparison (reference, AV1Depacketizer, AV1Packet+frame assembler); LEB128-boundary packing stratum; exhaustive LEB128 and OBU-header strata",
    "300k/8M OBU sequences x MTU 2.. (non-minimal size fields, remainders -2..3, > 65535 packets), 6k/300k boundary-packing cases; LEB128 on every v<2^17, boundary windows and a 2^20-point stride; all 2^16 OBU header byte pairs.",
    "N bit not judged; layer of an OBU whose extension byte falls into the next packet is not attributed.")
add("C14", "exploration",
    "runtime monitor: differential against an independent RFC 7798 parser/reassembler and encoder; exhaustive 2^16 payload headers, 2^8 FU headers, 2^16 PACI words, 2^24 TSCI triples (2^20 sampled in quick)",
    "300k/8M unit sequences (aggregation packets next to the MTU, units beyond 64 KiB, TID 0) and 300k/8M independently encoded payloads with every truncation; one open known finding (DONL in every FU, pinned by an existing test).",
    "DONL/DOND values are not judged, only placement; truncation judged inside the mandatory part.")
add("C15", "fault_enumeration",
    "runtime monitor with fault enumeration: every delivery subset (2^n for n<=10, thorough n<=13) of an earlier frame, garbage and second lossy frames as history, megabyte-sized abandoned fragments, twin against a fresh receiver on the following intact frame",
    "All 2^n loss subsets for trains of up to 10 (13) packets over 10k/300k frame pairs per codec (about 5M / 1G injected loss patterns).",
    "In-order delivery; the later frame is complete; H264 trains from the independent encoder (incl. empty fragments), AV1 trains from the library payloader.")
add("C16", "exploration",
    "runtime monitor: concatenation / fragment-size oracle over the exhaustive (length 0-320) x (MTU 1-320) grid plus MTU-multiple boundaries and > 65535 fragments; inputs with exact and spare capacity; overlap + scribble monitor for Opus",
    "The complete 321x320 grid for both payloaders, k*MTU-1..k*MTU+1 for nine MTUs, 65536*MTU+-1 at MTU 1-3, 200k/4M random pairs, Opus lengths 0-320 + nil.",
    "Input bytes are random; the split is value-independent in the code observed.")
add("C17", "exploration",
    "runtime monitor: exhaustive execution of the value domains (2x256, 2^16, 2^24, 2^24) against bit layouts from the specifications; pre-loaded receiver twin; every input length 0..size+2 and much longer ones; returned buffers must be fresh; values decoded earlier re-checked after later decodes",
    "Every value of AudioLevel, TransportCC, PlayoutDelay and AbsSendTime; AbsCaptureTime 2^21 (quick) / 2^24 (thorough) seeded 64-bit values x 3 receiver histories.",
    "Layouts restated in the monitor from RFC 6464 / the WebRTC extension documents.")
add("C18", "exploration",
    "runtime monitor: integer-nanosecond reference bounds over boundary-concentrated (instant, offset, delay) triples; time.Time values with locations and monotonic readings",
    "About 30M (quick) / 460M (thorough) triples concentrated at 64 s wraps, whole seconds, 2^-18 s field-unit boundaries, the era end, offset extremes and the largest allowed delay.",
    "Send instants before the NTP era end, receive instants up to 64 s after it; 1 ns conversion slack.")
add("C19", "exploration",
    "runtime monitor: differential against an independent video-layers-allocation00 encoder/decoder over all slot subsets; fresh-vs-used receiver twin; recover()-guarded decoder fuzz",
    "Thorough executes all 69 900 slot subsets x resolution flag (one open known finding: bitrates of 2^56 kbps or more); quick all subsets for <=2 streams plus 100 000 sampled; encodings beyond 255 bytes; 30k/300k invalid values; 60k/600k fuzz streams.",
    "Reference encoder/decoder cross-checked on every case; empty allocation only panic-checked.")
add("C20", "exploration",
    "runtime monitor: twin (mutate one side, watch the other's snapshot) + address-range overlap monitor over full slice capacity (payload, CSRC, extension list, extension values)",
    "600k/6M generated packets and headers (incl. spare-capacity slices, emptied extension lists, values decoded into used receivers) under 12 mutation kinds in both directions.",
    "Extension values are reached through GetExtension only; snapshots are fields + Marshal bytes.")
