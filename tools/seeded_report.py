#!/usr/bin/env python3
"""Prints the markdown table 'which check catches which seeded change' from seeded/*/meta.json."""
import json, os, glob
V = os.path.dirname(os.path.dirname(os.path.abspath(__file__)))
print("| seeded change | what it changes | needs to manifest | caught by (quick) | first signature |")
print("|---|---|---|---|---|")
for f in sorted(glob.glob(V + "/seeded/*/meta.json")):
    m = json.load(open(f))
    sig = (m["first_signatures"] or ["-"])[0]
    print("| %s | %s | %s | %s | `%s` |" % (m["name"], m["what_it_changes"].replace("|", "/"), m["needs_to_manifest"].replace("|", "/"), ", ".join(m["caught_by"]) or ("not reported (outside the domain, by design)" if "by design" in m["status"] else "**MISSED**"), sig[:110]))
