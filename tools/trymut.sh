#!/bin/bash
# tools/trymut.sh <patch.diff> <Cxx> [Cyy ...]  : apply a seeded change to /repo, run the quick checks, undo it.
# TRYMUT_SCRATCH=1: do the same in a scratch worktree of /repo HEAD (VERIF_REPO override of ./check), leaving /repo alone -
# for use while another run (a sweep) is building from /repo.
set -u
patch="$1"; shift
if [ -n "${TRYMUT_SCRATCH:-}" ]; then
  wt=/tmp/wt/trymut-$$
  git -C /repo worktree add --detach "$wt" HEAD >/dev/null 2>&1 || { echo "cannot create worktree"; exit 2; }
  trap 'git -C /repo worktree remove --force "$wt" >/dev/null 2>&1' EXIT
  cd "$wt" || exit 2
  if ! git apply "$patch" 2>/dev/null; then
    git apply --3way "$patch" >/dev/null 2>&1 || { echo "PATCH DOES NOT APPLY: $patch"; exit 3; }
  fi
  # (.build/noevid: several runs share /verif/evidence right now; it is regenerated on the clean tree afterwards)
  [ -e /verif/.build/noevid ] || { rm -rf /verif/.build/evidence.keep$$; cp -r /verif/evidence /verif/.build/evidence.keep$$ 2>/dev/null; }
  for id in "$@"; do
    out=$(cd /verif && VERIF_REPO="$wt" ./check "$id" quick 2>&1); rc=$?
    echo "== $id exit=$rc: $(echo "$out" | grep -c '^VIOLATION') violation line(s)"
    echo "$out" | grep -A1 '^VIOLATION' | grep signature | head -4
    echo "$out" | grep -E '^INCONCLUSIVE' | head -3
  done
  [ -e /verif/.build/noevid ] || { [ -d /verif/.build/evidence.keep$$ ] && { rm -rf /verif/evidence; mv /verif/.build/evidence.keep$$ /verif/evidence; }; }
  exit 0
fi
cd /repo || exit 2
if [ -n "$(git status --porcelain)" ]; then echo "/repo is dirty, refusing"; exit 2; fi
if ! git apply "$patch" 2>/dev/null; then
  if ! git apply --3way "$patch" >/dev/null 2>&1; then echo "PATCH DOES NOT APPLY: $patch"; git checkout -q -- . ; git reset -q; exit 3; fi
  git reset -q
fi
# evidence files are rewritten by every run: keep the ones of the unchanged tree
[ -e /verif/.build/noevid ] || { rm -rf /verif/.build/evidence.keep; cp -r /verif/evidence /verif/.build/evidence.keep 2>/dev/null; }
for id in "$@"; do
  out=$(cd /verif && ./check "$id" quick 2>&1); rc=$?
  echo "== $id exit=$rc: $(echo "$out" | grep -c '^VIOLATION') violation line(s)"
  echo "$out" | grep -A1 '^VIOLATION' | grep signature | head -4
  echo "$out" | grep -E '^INCONCLUSIVE' | head -3
done
git checkout -q -- . ; git reset -q; git status --porcelain | head
[ -e /verif/.build/noevid ] || { [ -d /verif/.build/evidence.keep ] && { rm -rf /verif/evidence; mv /verif/.build/evidence.keep /verif/evidence; }; }
