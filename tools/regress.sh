#!/bin/bash
# tools/regress.sh : re-introduces every repaired defect (reverse patch of each fix: commit of /repo) and runs the owning property's
# quick check; every one of them must be reported again (a fixed entry suppresses nothing).
cd /repo || exit 2
[ -n "$(git status --porcelain)" ] && { echo "/repo dirty"; exit 2; }
python3 - <<'PY' > /tmp/regress-map.txt
import json
k=json.load(open('/verif/known_findings.json'))
seen=set()
for f in k['findings']:
    if f['status']=='fixed' and (f['commit'],f['property']) not in seen:
        seen.add((f['commit'],f['property'])); print(f['commit'],f['property'])
PY
ok=0; bad=0
while read commit prop; do
  git show "$commit" -- . ':!*_test.go' > /tmp/regress-$commit.diff
  if ! git apply -R /tmp/regress-$commit.diff 2>/dev/null; then
     if ! git apply -R --3way /tmp/regress-$commit.diff >/dev/null 2>&1; then echo "$commit $prop: reverse patch does not apply (later fix touches the same lines)"; git checkout -q -- .; git reset -q; continue; fi
     git reset -q
  fi
  out=$(cd /verif && ./check $prop quick 2>&1); rc=$?
  nviol=$(echo "$out" | grep -c '^VIOLATION')
  if [ $rc -eq 1 ] && [ $nviol -gt 0 ]; then ok=$((ok+1)); echo "$commit $prop: re-detected ($nviol signature(s)): $(echo "$out" | grep -m1 signature= | sed 's/ occurrences.*//')"; else bad=$((bad+1)); echo "$commit $prop: NOT DETECTED (exit $rc)"; fi
  git checkout -q -- .; git reset -q
  rm -f /tmp/regress-$commit.diff
done < /tmp/regress-map.txt
echo "re-detected $ok, missed $bad"; rm -f /tmp/regress-map.txt
[ -z "$(git status --porcelain)" ] || echo "WARNING /repo dirty"
