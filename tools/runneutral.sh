#!/bin/bash
# tools/runneutral.sh : applies every behaviour-preserving refactor in /verif/neutral to /repo and runs ALL quick checks; every check must stay silent (exit 0).
cd /verif/neutral || exit 2
for d in *.diff; do
  res=$(/verif/tools/trymut.sh /verif/neutral/$d C01 C02 C03 C04 C05 C06 C07 C08 C09 C10 C11 C12 C13 C14 C15 C16 C17 C18 C19 C20 2>&1)
  bad=$(echo "$res" | grep '^==' | grep -v 'exit=0' | tr '\n' ' ')
  if [ -z "$bad" ]; then echo "$d: all 20 checks silent"; else echo "$d: ALARM $bad"; echo "$res" | grep -E "signature|INCONCL" | head -5 | cut -c1-250; fi
done
