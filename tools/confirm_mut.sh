#!/bin/bash
# tools/confirm_mut.sh <mutdir> <demo-target-dir-relative-to-repo-root> <seeded-name>
# Confirms a seeded change in a scratch worktree of /repo HEAD: applies (3-way if needed), build+vet+full suite must pass,
# demo must fail with and pass without. On success stores /verif/seeded/<name>/{patch.diff (rebased on HEAD), demo_test.go, README.md}.
set -u
export GOFLAGS=-mod=mod GOPROXY=off GOSUMDB=off GOTOOLCHAIN=local
mut="$1"; target="$2"; name="$3"
wt=/tmp/wt/confirm-$$
git -C /repo worktree add --detach "$wt" HEAD >/dev/null 2>&1 || { echo "cannot create worktree"; exit 2; }
cleanup() { git -C /repo worktree remove --force "$wt" >/dev/null 2>&1; }
trap cleanup EXIT
cd "$wt"
if ! git apply "$mut/patch.diff" 2>/dev/null; then
  git apply --3way "$mut/patch.diff" >/dev/null 2>&1 || { echo "RESULT $name: patch does not apply to HEAD"; exit 3; }
  git reset -q
fi
git diff > /tmp/confirm-$$.diff
go build ./... >/dev/null 2>&1 || { echo "RESULT $name: does not build"; exit 3; }
go vet ./... >/dev/null 2>&1 || { echo "RESULT $name: vet fails"; }
if ! go test -count=1 ./... >/tmp/confirm-$$.suite 2>&1; then echo "RESULT $name: existing suite FAILS with the patch"; tail -5 /tmp/confirm-$$.suite; exit 3; fi
demo=$(ls "$mut"/demo*_test.go | head -1)
cp "$demo" "$target/zz_seeded_demo_test.go"
run=$(grep -o 'func Test[A-Za-z0-9_]*' "$demo" | sed 's/func //' | paste -sd'|')
if (cd "$target" && go test -count=1 -run "^($run)\$" . >/tmp/confirm-$$.with 2>&1); then echo "RESULT $name: demo PASSES with the patch (not a demonstration)"; exit 3; fi
git checkout -q -- . 
if ! (cd "$target" && go test -count=1 -run "^($run)\$" . >/tmp/confirm-$$.without 2>&1); then echo "RESULT $name: demo FAILS on the clean tree"; tail -5 /tmp/confirm-$$.without; exit 3; fi
mkdir -p /verif/seeded/$name
cp /tmp/confirm-$$.diff /verif/seeded/$name/patch.diff
cp "$demo" /verif/seeded/$name/demo_test.go
cp "$mut/README.md" /verif/seeded/$name/README.md 2>/dev/null
echo "$target" > /verif/seeded/$name/demo_target_dir
echo "RESULT $name: confirmed (applies to HEAD $(git -C /repo rev-parse --short HEAD), suite passes, demo fails with / passes without)"
rm -f /tmp/confirm-$$.*
