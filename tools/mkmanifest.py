#!/usr/bin/env python3
"""Regenerates /verif/MANIFEST.json from the table below (kept next to the code so the manifest is valid at all times)."""
import json, os, subprocess
V = os.path.dirname(os.path.dirname(os.path.abspath(__file__)))

# id -> (level, technique, level text, level note, design ref)
CHECKS = {}
def add(id, level, technique, text, note):
    CHECKS[id] = dict(level=level, technique=technique, text=text, note=note)

exec(open(os.path.join(V, "tools", "checks_table.py")).read())

props = [json.loads(l) for l in open(os.path.join(V, "properties.jsonl"))]
checks, na = [], []
NA = globals().get("NOT_APPLICABLE", {})
for p in props:
    id = p["id"]
    if id in CHECKS:
        c = CHECKS[id]
        checks.append({
            "property_id": id,
            "quick_cmd": f"./check {id} quick",
            "thorough_cmd": f"./check {id} thorough",
            "evidence_file": f"/verif/evidence/{id}.json",
            "replay_cmd_template": f"./check {id} --replay {{path}}",
            "engine": "rtpmon",
            "level_claimed": {"category": c["level"], "text": c["text"], "design_ref": f"DESIGN.md section 5.{id}"},
            "level_note": c["note"],
            "technique": c["technique"],
        })
    else:
        na.append({"property_id": id, "reason": NA.get(id, "check not built yet in this round; the property is addressed by this technique family (see DESIGN.md section 5) and will be claimed when its monitor exists")})

hooks_commits = globals().get("HOOK_COMMITS", [])
m = {
    "version": 1,
    "setup_cmd": "./check build",
    "hooks": {
        "guard": "verif (Go build tag)",
        "enable": "go build -tags verif (the ./check driver builds the harness with -tags verif; falls back to an untagged build if a change to /repo broke a hook)",
        "baseline_off_cmd": "cd /repo && GOFLAGS=-mod=mod GOPROXY=off GOSUMDB=off GOTOOLCHAIN=local go test -json -vet=off -count=1 -timeout 25m ./...",
        "source_commits": hooks_commits,
        "add_only": True,
    },
    "engines": [{
        "name": "rtpmon",
        "path": "/verif/harness",
        "serves_properties": sorted(CHECKS),
        "kind_free_text": "Go runtime-monitoring harness: seeded hostile workloads drive the real pion/rtp from /repo's working tree inside contained child processes; oracles = independent reference codecs, shadow models, twin instances, overlap/immutability monitors, porcupine history checking, Go race detector",
    }],
    "checks": checks,
    "notes": globals().get("NOTES", ""),
    "not_applicable": na,
}
json.dump(m, open(os.path.join(V, "MANIFEST.json"), "w"), indent=1)
print("MANIFEST.json:", len(checks), "checks,", len(na), "not claimed")
