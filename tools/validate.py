#!/usr/bin/env python3
"""Validates MANIFEST.json and every evidence file against the schemas."""
import json, sys, glob, os
sys.path.insert(0, "/opt/veriftools/pyvenv/lib/python3.11/site-packages")
import jsonschema
V = os.path.dirname(os.path.dirname(os.path.abspath(__file__)))
ms = json.load(open("/root/.vp/MANIFEST.schema.json")); es = json.load(open("/root/.vp/EVIDENCE.schema.json"))
jsonschema.validate(json.load(open(V + "/MANIFEST.json")), ms); print("MANIFEST ok")
for f in sorted(glob.glob(V + "/evidence/*.json")):
    try:
        jsonschema.validate(json.load(open(f)), es); print(os.path.basename(f), "ok")
    except Exception as e:
        print(os.path.basename(f), "INVALID:", str(e)[:300]); sys.exit(1)
