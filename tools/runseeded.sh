#!/bin/bash
# tools/runseeded.sh [name ...] : run every (or the named) seeded change against the owning property's quick check; prints a table.
cd /verif/seeded || exit 2
names=("$@"); [ ${#names[@]} -eq 0 ] && names=($(ls -d */ | tr -d /))
for n in "${names[@]}"; do
  prop=${n%%-*}
  [ -f "$n/props" ] && props=$(cat "$n/props") || props=$prop
  res=$(/verif/tools/trymut.sh /verif/seeded/$n/patch.diff $props 2>&1)
  echo "$res" > /verif/seeded/$n/last_run.txt
  echo "$n: $(echo "$res" | grep '^==' | tr '\n' ' ')"
  echo "$res" | grep -E 'signature=|PATCH DOES NOT|INCONCLUSIVE' | head -3 | cut -c1-220
done
