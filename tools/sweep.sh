#!/bin/bash
# tools/sweep.sh <tier> <seed...> : runs every check at the given seeds on the unchanged tree; prints anything that is not a clean exit 0.
tier=$1; shift
for seed in "$@"; do
  for p in C01 C02 C03 C04 C05 C06 C07 C08 C09 C10 C11 C12 C13 C14 C15 C16 C17 C18 C19 C20; do
    out=$(VERIF_SEED=$seed /verif/check $p $tier 2>&1); rc=$?
    if [ $rc -ne 0 ] || echo "$out" | grep -q '^VIOLATION\|^INCONCLUSIVE'; then echo "seed=$seed $p exit=$rc"; echo "$out" | grep -E "VIOLATION|signature|INCONCLUSIVE" | head -5 | cut -c1-300; fi
  done
  echo "seed $seed done"
done
